#!/bin/bash
# debug helper: run one M obligation verbosely in the background; logs in /tmp/m-<name>.{out,err}
N=$1; shift
cd /verif
MIRSMT_VERBOSE=1 timeout ${TMO:-900} python3-vt mirsmt/run_one.py $N --tier ${TIER:-quick} --mir $(ls /root/.cache/verif-work/mir/chrono-*-${FEAT:-std}.mir | head -n 1) --src $(ls -d /root/.cache/verif-work/mir/src-*) --probe /root/.cache/verif-work/probe/target/debug/chrono-verif-probe "$@" > /tmp/m-$N.out 2> /tmp/m-$N.err &
