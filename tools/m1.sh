#!/bin/bash
# debug helper: run one M obligation verbosely in the background; logs in /tmp/m-<name>.{out,err}
# (the dump is (re)generated for /repo's CURRENT working tree first)
N=$1; shift
cd /verif
read MIR SRC < <(python3-vt -c "
import sys; sys.path.insert(0, '/verif/lib'); import mir_engine as M
m, s = M.ensure_dump('${FEAT:-std}'.replace('+', ',')); print(m, s)")
MIRSMT_VERBOSE=1 timeout ${TMO:-900} python3-vt mirsmt/run_one.py $N --tier ${TIER:-quick} --mir $MIR --src $SRC --probe /root/.cache/verif-work/probe/target/debug/chrono-verif-probe "$@" > /tmp/m-$N.out 2> /tmp/m-$N.err &
