use chrono::format::Parsed;
use chrono::DateTime;
#[test]
fn leap_second_at_the_first_representable_instant_is_an_error_not_a_panic() {
    let mut p = Parsed::new();
    p.set_timestamp(DateTime::<chrono::Utc>::MIN_UTC.timestamp()).unwrap();
    p.set_second(60).unwrap();
    assert!(p.to_naive_datetime_with_offset(0).is_err());
}
