#![cfg(chrono_verif)]
use chrono::offset::verif_tz::Zone;
use chrono::offset::LocalResult;
use chrono::NaiveDate;
#[test]
fn rule_fold_is_earliest_first() {
    let z = Zone::from_tz_string(b"CET-1CEST,M3.5.0,M10.5.0/3").unwrap();
    let l = NaiveDate::from_ymd_opt(2021, 10, 31).unwrap().and_hms_opt(2, 30, 0).unwrap();
    assert_eq!(z.offsets_for_local(l), Ok(LocalResult::Ambiguous(7200, 3600)));
}
#[test]
fn table_fold_is_earliest_first_and_flag_only_transition_is_single() {
    let z = Zone::from_parts_n(1, [(1_635_642_000, 1), (0, 0)], [(7200, true), (3600, false)]).unwrap();
    let l = NaiveDate::from_ymd_opt(2021, 10, 31).unwrap().and_hms_opt(2, 30, 0).unwrap();
    assert_eq!(z.offsets_for_local(l), Ok(LocalResult::Ambiguous(7200, 3600)));
    let z2 = Zone::from_parts_n(1, [(1_635_642_000, 1), (0, 0)], [(3600, true), (3600, false)]).unwrap();
    let at = NaiveDate::from_ymd_opt(2021, 10, 31).unwrap().and_hms_opt(2, 0, 0).unwrap();
    assert_eq!(z2.offsets_for_local(at), Ok(LocalResult::Single(3600)));
}
