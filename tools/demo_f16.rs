#![cfg(chrono_verif)]
// F16: AlternateTime::find_local_time_type_from_local decided "which transition comes first in the year" by comparing
// the CALENDAR MONTHS of the two transition dates. A rule whose DST starts and ends within one month (or whose offsets
// are large enough to move a transition into the neighbouring month) took the southern-hemisphere branch and reported
// the DST offset for wall-clock times before the start, although find_local_time_type (by instant) says standard time.
// Run: cp tools/demo_f16.rs /repo/tests/ && (cd /repo && RUSTFLAGS="--cfg chrono_verif" cargo test --offline --test demo_f16)
use chrono::offset::verif_tz::Zone;
use chrono::offset::LocalResult;
use chrono::NaiveDate;
#[test]
fn dst_within_one_month_agrees_with_the_instant_lookup() {
    // DST from the first to the fourth Sunday of March (02:00), UTC+1 / UTC+2
    let z = Zone::from_tz_string(b"STD-1DST,M3.1.0,M3.4.0").unwrap();
    let feb = NaiveDate::from_ymd_opt(2021, 2, 1).unwrap().and_hms_opt(12, 0, 0).unwrap();
    assert_eq!(z.offset_at(feb.and_utc().timestamp() - 3600), Ok(3600)); // by instant: standard time
    assert_eq!(z.offsets_for_local(feb), Ok(LocalResult::Single(3600)));
    let mid = NaiveDate::from_ymd_opt(2021, 3, 15).unwrap().and_hms_opt(12, 0, 0).unwrap();
    assert_eq!(z.offsets_for_local(mid), Ok(LocalResult::Single(7200)));
    let dec = NaiveDate::from_ymd_opt(2021, 12, 1).unwrap().and_hms_opt(12, 0, 0).unwrap();
    assert_eq!(z.offsets_for_local(dec), Ok(LocalResult::Single(3600)));
}
