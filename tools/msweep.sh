#!/bin/bash
cd /verif
for p in "$@"; do
  s=$(date +%s)
  ./check $p --tier quick --only _m_ --no-evidence > /tmp/msweep-$p.log 2>&1
  echo "$p rc=$? $(( $(date +%s) - s ))s $(grep -cE '^\[M\].*: held' /tmp/msweep-$p.log) held; $(grep -E '^\[M\]' /tmp/msweep-$p.log | grep -v ': held' | cut -c1-220 | tr '\n' '|')" >> /tmp/msweep.log
done
echo done >> /tmp/msweep.log
