#!/bin/bash
# seed_run.sh <seed-id> [tier] [--only X]: apply seeded patch to /repo, run the property's check, restore /repo.
ID=$1; TIER=${2:-quick}; shift; shift
PROP=$(python3 -c "import json;print(json.load(open('/verif/seeded/$ID/meta.json'))['breaks_property'])")
cd /repo && [ -z "$(git status --porcelain --untracked-files=no)" ] || { echo "/repo dirty"; exit 3; }
git apply /verif/seeded/$ID/patch.diff || exit 3
cd /verif && ./check $PROP --tier $TIER --no-evidence "$@" > /tmp/seedrun-$ID.log 2>&1; RC=$?
git -C /repo checkout -- .
grep -E "^\[|VIOLATION|KNOWN|tier=" /tmp/seedrun-$ID.log | grep -v ": held" | tail -15
echo "seed $ID prop $PROP tier $TIER rc=$RC"
