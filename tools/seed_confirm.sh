#!/bin/bash
# seed_confirm.sh <seed-id> <property> <dir-with patch.diff demo.rs notes.md>
# Confirms in a scratch worktree of /repo HEAD: patch applies, full suite green with it, demo fails with it and passes without it.
set -u
ID=$1; PROP=$2; SRC=$3; FEAT=${4:-}
FARG=""; [ -n "$FEAT" ] && FARG="--features $FEAT"
WT=/tmp/wt-confirm
if [ ! -d $WT ]; then git -C /repo worktree add --detach $WT HEAD -q || exit 3; fi
cd $WT && git checkout -q --detach $(git -C /repo rev-parse HEAD) && git checkout -- . && rm -f tests/demo_*.rs
export CARGO_NET_OFFLINE=true
git apply --check $SRC/patch.diff || { echo "PATCH DOES NOT APPLY"; exit 3; }
git apply $SRC/patch.diff
echo "== full suite with patch"
cargo test --offline --workspace --no-fail-fast >/tmp/seed-$ID-suite.log 2>&1; S1=$?
if [ -n "$FEAT" ]; then cargo test --offline $FARG --lib >/tmp/seed-$ID-suite2.log 2>&1 || S1=1; fi
grep -E "^test result|FAILED|failed" /tmp/seed-$ID-suite.log | head -8
cp $SRC/demo.rs tests/demo_seed.rs
echo "== demo with patch (expect failure)"
cargo test --offline $FARG --test demo_seed -- --test-threads=1 >/tmp/seed-$ID-demo1.log 2>&1; D1=$?
grep -E "^test result" /tmp/seed-$ID-demo1.log
git checkout -- src Cargo.toml 2>/dev/null; git checkout -- .
echo "== demo without patch (expect pass)"
cargo test --offline $FARG --test demo_seed -- --test-threads=1 >/tmp/seed-$ID-demo0.log 2>&1; D0=$?
grep -E "^test result" /tmp/seed-$ID-demo0.log
rm -f tests/demo_seed.rs
echo "suite_with_patch_rc=$S1 demo_with_patch_rc=$D1 demo_clean_rc=$D0"
if [ $S1 -eq 0 ] && [ $D1 -ne 0 ] && [ $D0 -eq 0 ]; then
  mkdir -p /verif/seeded/$ID
  cp $SRC/patch.diff $SRC/demo.rs /verif/seeded/$ID/
  [ -f $SRC/notes.md ] && cp $SRC/notes.md /verif/seeded/$ID/
  python3 - "$ID" "$PROP" <<PY
import json,sys,subprocess
i,p=sys.argv[1],sys.argv[2]
head=subprocess.run(["git","-C","/repo","rev-parse","--short","HEAD"],capture_output=True,text=True).stdout.strip()
notes=open(f"/verif/seeded/{i}/notes.md").read() if __import__("os").path.exists(f"/verif/seeded/{i}/notes.md") else ""
json.dump({"id":i,"breaks_property":p,"base_commit":head,"needs_to_manifest":"see notes.md",
 "confirmed":{"applies":True,"existing_suite_green_with_patch":True,"demo_fails_with_patch":True,"demo_passes_without_patch":True,
  "commands":["git apply patch.diff","cargo test --offline --workspace --no-fail-fast","cargo test --offline --test demo_seed (with and without patch)"]},
 "detected_by":None},open(f"/verif/seeded/{i}/meta.json","w"),indent=1)
PY
  echo CONFIRMED $ID
else
  echo NOT-CONFIRMED $ID
fi
