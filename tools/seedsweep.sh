#!/bin/bash
# usage: seedsweep.sh SEED[:ONLY-SUBSTR] ...   run each seed against its property's quick check (optionally restricted), sequentially
cd /verif
for item in "$@"; do
  s=${item%%:*}; only=""; [ "$item" != "$s" ] && only="--only ${item#*:}"
  tools/seed_run.sh $s ${SEEDTIER:-quick} $only > /tmp/seedsweep-$s.log 2>&1
  echo "$s ($only): $(tail -n 1 /tmp/seedsweep-$s.log) :: $(grep -E 'violation|VIOLATION|does not apply|patch failed' /tmp/seedsweep-$s.log | head -n 2 | cut -c1-160 | tr '\n' '|')" >> /tmp/seedsweep.log
done
echo done >> /tmp/seedsweep.log
