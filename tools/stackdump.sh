#!/bin/bash
# run an M obligation verbosely; after $2 seconds dump the python stack (to see where symbolic execution is stuck)
N=$1; W=${2:-50}
cd /verif
MIRSMT_VERBOSE=1 timeout 600 python3-vt mirsmt/run_one.py $N --tier quick --mir $(ls /root/.cache/verif-work/mir/chrono-*-${FEAT:-std}.mir | head -n 1) --src $(ls -d /root/.cache/verif-work/mir/src-*) > /tmp/sd.out 2> /tmp/sd.err &
PID=$!
sleep $W
kill -USR1 $PID
sleep 1
grep -A 40 "most recent call first" /tmp/sd.err | head -60
kill $PID 2>/dev/null
exit 0
