#![cfg(chrono_verif)]
// F15: a validated zone whose first transition lies near i64::MIN (or i64::MAX) made
// find_local_time_type_from_local overflow in `transition time + offset` (panic in dev, wrap-around in release).
// Run: cp tools/demo_f15.rs /repo/tests/ && (cd /repo && RUSTFLAGS="--cfg chrono_verif" cargo test --offline --test demo_f15)
use chrono::offset::verif_tz::Zone;
use chrono::offset::LocalResult;
use chrono::NaiveDate;
#[test]
fn transition_near_i64_min_does_not_overflow() {
    let z = Zone::from_parts_n(1, [(i64::MIN + 5, 1), (0, 0)], [(-3600, false), (-7200, true)]).unwrap();
    let l = NaiveDate::from_ymd_opt(2021, 10, 31).unwrap().and_hms_opt(2, 30, 0).unwrap();
    assert_eq!(z.offsets_for_local(l), Ok(LocalResult::Single(-7200)));
}
#[test]
fn transition_near_i64_max_does_not_overflow() {
    let z = Zone::from_parts_n(1, [(i64::MAX - 5, 1), (0, 0)], [(3600, false), (7200, true)]).unwrap();
    let l = NaiveDate::from_ymd_opt(2021, 10, 31).unwrap().and_hms_opt(2, 30, 0).unwrap();
    assert_eq!(z.offsets_for_local(l), Ok(LocalResult::Single(3600)));
}
