#!/bin/bash
# stop all running ./check drivers and their Kani/CBMC children (never this script's own ancestors)
anc=" $$ "; p=$$
while [ "$p" -gt 1 ]; do p=$(ps -o ppid= -p $p | tr -d ' '); [ -z "$p" ] && break; anc="$anc$p "; done
for pid in $(ps -eo pid,args | awk '/python3-vt .*\/check |\.\/check |cargo-kani|kani-driver|kani-compiler|[ \/]cbmc |goto-instrument|mirsmt\/run_one/ {print $1}'); do
  case "$anc" in *" $pid "*) ;; *) kill $pid 2>/dev/null;; esac
done
exit 0
