#![cfg(feature = "serde")]
// F17: `Serialize for DateTime<Tz>` formatted the wall clock through the panicking `naive_local()`; a value whose wall
// clock lies in the headroom day beyond NaiveDate::MAX / before MIN panicked inside the serializer instead of producing
// the RFC 3339 / ISO 8601 string that `to_rfc3339()` produces for the same value.
// Run: cp tools/demo_f17.rs /repo/tests/ && (cd /repo && cargo test --offline --features serde --test demo_f17)
use chrono::{DateTime, FixedOffset, NaiveDate, TimeZone, Utc};
#[test]
fn serialize_in_the_headroom_day_does_not_panic() {
    let last = NaiveDate::MAX.and_hms_opt(23, 59, 59).unwrap();
    let dt: DateTime<FixedOffset> = FixedOffset::east_opt(1).unwrap().from_utc_datetime(&last);
    let s = serde_json::to_string(&dt).unwrap();
    assert_eq!(s, format!("\"{}\"", dt.to_rfc3339()));
    let first: DateTime<Utc> = NaiveDate::MIN.and_hms_opt(0, 0, 0).unwrap().and_utc();
    let dt = first.with_timezone(&FixedOffset::west_opt(3600).unwrap());
    assert_eq!(serde_json::to_string(&dt).unwrap(), format!("\"{}\"", dt.to_rfc3339()));
}
