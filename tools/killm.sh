#!/bin/bash
# kill stray Engine-M runner processes (pattern kept in this file so callers' command lines never match)
for p in $(pgrep -f "mirsmt/run_one\.py"); do kill $p 2>/dev/null; done
exit 0
