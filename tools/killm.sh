#!/bin/bash
# kill stray Engine-M debug runs started by tools/m1.sh (only those: they carry MIRSMT_VERBOSE in their environment);
# with an argument: only the obligation of that name
for p in $(pgrep -f "mirsmt/run_one\.py ${1:-}"); do
  if tr '\0' '\n' < /proc/$p/environ 2>/dev/null | grep -q "^MIRSMT_VERBOSE="; then kill $p 2>/dev/null; fi
done
exit 0
