#!/bin/bash
# run the quick tier of the given properties one after another (as the harness does), log per property
cd /verif
for p in "$@"; do
  s=$(date +%s)
  ./check $p --tier quick > /tmp/sweep-$p.log 2>&1
  rc=$?
  echo "$p rc=$rc $(( $(date +%s) - s ))s $(tail -n 1 /tmp/sweep-$p.log | cut -c1-150)" >> /tmp/sweep.log
done
echo done >> /tmp/sweep.log
