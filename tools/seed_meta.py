#!/usr/bin/env python3
"""Record in seeded/<id>/meta.json which check detected each seeded change (filled from the sweeps run in this build)."""
import json, os
D = {
 "C01-m1": ("K c01_isoywd_valid_iff", "quick"), "C01-m2": ("M c01_m_daynum_of_date", "quick"),
 "C02-m1": ("M c02_m_from_timestamp (and _millis/_micros)", "quick"), "C02-m2": ("M c02_m_systemtime", "quick"),
 "C03-m1": ("M c03_m_days_u64", "quick"), "C03-m2": ("M c03_m_date_signed (cut num_days_truncates); also M c06_m_accessors", "quick"),
 "C04-m1": ("K c04_wall_clock_getters", "quick"), "C04-m2": ("M c04_m_display_total", "quick"),
 "C05-m1": ("M c05_m_days_since_unix_epoch", "quick"), "C05-m2": ("K c05_table_local_one (patch rebased onto the F12/F14 fix)", "quick"),
 "C05-m3": (None, "missed: the mutated branch (next-year probing in find_local_time_type) only matters for rules whose transitions lie on the year boundary; c05_m_rule_offset_at assumes, like the property's quantifier, transitions more than one day inside each year"),
 "C05-m4": ("M c05_m_rule_local", "quick"),
 "C06-m1": ("M c06_m_mul", "quick"), "C06-m2": ("M c06_m_new", "quick"),
 "C07-m1": ("M c07_m_time_add", "quick"), "C07-m2": ("M c07_m_time_diff", "quick"),
 "C08-m1": ("K c08_add_sub_months", "quick"), "C08-m2": ("K c08_years_since", "quick"),
 "C09-m1": ("M c09_m_offset_debug_fields (K c09_offset_weekday_month also fails on it, thorough tier, but Kani produced no concrete playback test: exit 2 there)", "quick"), "C09-m2": ("M c09_m_time_debug_fields", "quick"),
 "C10-m1": ("M c10_m_rfc3339_fields", "quick"), "C10-m2": (None, "missed: reader side (scan::nanosecond on non-ASCII numerics); no reader obligation built"),
 "C11-m1": ("M c11_m_rfc2822_fields", "quick"), "C11-m2": (None, "missed: reader side (two-digit year pivot in parse_rfc2822); no reader obligation built"),
 "C12-m1": ("K c12_offset_z, c12_offset_colon", "quick"), "C12-m2": ("K c12_year_small", "quick"),
 "C13-m1": ("K c13_items_iso_week_date (thorough tier; 44 min incl. counterexample generation and native replay)", "thorough"),
 "C13-m2": ("M c12_m_year_items (registered for C13 as well)", "quick"),
 "C14-m1": ("K c14_date_sound_ymd", "quick"), "C14-m2": ("K c14_ambiguous_offset_choice", "quick"),
 "C14-m3": (None, "missed: c14_m_parsed_timestamp decides the time of day of the reconstruction, not its date (the date claim stayed unknown at 90 s per query and was dropped); the mutant changes only the year at a year boundary with second = 60"),
 "C14-m4": ("K c14_time_sound", "quick"),
 "C15-m1": ("M c06_m_mul (no_panic; registered for C15 as well)", "quick"), "C15-m2": ("M c15_m_rfc3339_writer_ok", "quick"),
 "C16-m1": ("M c05_m_rule_day_julian (registered for C16 as well)", "quick"), "C16-m2": ("K c16_zone_local_total, c16_zone_offset_at_total (type indices left unconstrained)", "quick"),
 "C17-m1": ("M c17_m_duration_round", "quick"), "C17-m2": ("M c17_m_subsec", "quick"),
 "C19-m1": ("K c19_month_from_int", "quick"), "C19-m2": ("K c19_set_iter", "quick"),
 "C20-m1": ("M c20_m_utc_ts_seconds", "quick"), "C20-m2": ("M c20_m_naive_ts_nanoseconds", "quick"),
}
import sys
for a in sys.argv[1:]:
    k, v = a.split("=", 1)
    D[k] = (v, "quick")
base = os.path.join(os.path.dirname(os.path.dirname(os.path.abspath(__file__))), "seeded")
for sid, (by, tier) in sorted(D.items()):
    p = os.path.join(base, sid, "meta.json")
    if not os.path.exists(p):
        continue
    m = json.load(open(p))
    m["detected_by"] = by
    m["detected_in_tier"] = tier if by else None
    if not by:
        m["missed_because"] = tier
    m["ran"] = f"git -C /repo apply seeded/{sid}/patch.diff; ./check {m['breaks_property']} --tier quick [--only <obligation>]; git -C /repo checkout -- ."
    json.dump(m, open(p, "w"), indent=1)
print("updated", len(D))
