"""Parser for the subset of rustc's `-Zunpretty=mir` text that chrono's arithmetic kernels use.

Produces Function objects (params, local types, basic blocks of parsed statements / terminators).
Anything it does not understand is kept as ('unsupported', text) and makes the *obligation that reaches
it* inconclusive at execution time; parsing itself never guesses.
"""
import re

HEADER_FN = re.compile(r"^fn (.+?)\((.*)\) -> (.+?) \{$")
HEADER_FN_UNIT = re.compile(r"^fn (.+?)\((.*)\) \{$")
HEADER_CONST = re.compile(r"^(?:const|static(?: mut)?) (.+?): (.+?) = \{$")
HEADER_CONST_SIMPLE = re.compile(r"^const (.+?): (.+?) = const (.+);$")
LET_RE = re.compile(r"^\s*let (?:mut )?(_\d+): (.+);$")
BB_RE = re.compile(r"^\s*(bb\d+)(?: \(cleanup\))?: \{$")


def split_top(s, sep=","):
    """split at top-level separators, respecting () [] {} <> and string literals"""
    out, depth, cur, i, n = [], 0, [], 0, len(s)
    instr = False
    while i < n:
        c = s[i]
        if instr:
            cur.append(c)
            if c == "\\":
                cur.append(s[i + 1])
                i += 1
            elif c == '"':
                instr = False
        elif c == '"':
            instr = True
            cur.append(c)
        elif c in "([{":
            depth += 1
            cur.append(c)
        elif c in ")]}":
            depth -= 1
            cur.append(c)
        elif c == "<":
            # generic bracket unless it is a comparison (never in MIR operands) or '<<'
            depth += 1
            cur.append(c)
        elif c == ">":
            if i > 0 and s[i - 1] == "-":  # '->'
                cur.append(c)
            else:
                depth -= 1
                cur.append(c)
        elif c == sep and depth == 0:
            out.append("".join(cur).strip())
            cur = []
        else:
            cur.append(c)
        i += 1
    last = "".join(cur).strip()
    if last or out:
        out.append(last)
    return out


class Function:
    def __init__(self, name, params, ret, kind):
        self.name = name  # raw header name
        self.params = params  # [(local, type)]
        self.ret = ret
        self.kind = kind  # 'fn' | 'const'
        self.locals = {}  # _N -> type string
        self.blocks = {}  # bbN -> (stmts, term)
        self.order = []
        self.ctfe = False
        self.simple_const = None


def parse_dump(text):
    """-> list of Function (runtime bodies; CTFE duplicates are marked ctfe=True)"""
    funcs = []
    lines = text.split("\n")
    i, n = 0, len(lines)
    next_is_ctfe = False
    while i < n:
        l = lines[i]
        if l.startswith("// MIR FOR CTFE"):
            next_is_ctfe = True
            i += 1
            continue
        f = None
        m = HEADER_FN.match(l)
        if m:
            name, params, ret = m.groups()
            f = Function(name, _params(params), ret, "fn")
        else:
            m = HEADER_FN_UNIT.match(l) if l.startswith("fn ") else None
            if m:
                name, params = m.groups()
                f = Function(name, _params(params), "()", "fn")
            else:
                m = re.match(r"^(?:const|static(?: mut)?) (.*) = (\{|const .+;)$", l)
                if m and ": " in m.group(1):
                    nm, ty = m.group(1).rsplit(": ", 1)
                    f = Function(nm, [], ty, "const")
                    if m.group(2) != "{":
                        f.simple_const = m.group(2)[len("const "):-1]
                        funcs.append(f)
                        i += 1
                        continue
        if f is None:
            i += 1
            continue
        f.ctfe = next_is_ctfe
        next_is_ctfe = False
        i += 1
        cur = None
        stmts = []
        while i < n and lines[i] != "}":
            s = lines[i]
            mb = BB_RE.match(s)
            if mb:
                cur = mb.group(1)
                stmts = []
                f.order.append(cur)
            elif cur is None:
                ml = LET_RE.match(s)
                if ml:
                    f.locals[ml.group(1)] = ml.group(2)
            else:
                st = s.strip()
                if st == "}":
                    # end of block: last statement is the terminator
                    term = stmts.pop() if stmts else ("unsupported", "empty block")
                    f.blocks[cur] = (stmts, term)
                    cur = None
                elif st:
                    stmts.append(parse_stmt(st))
            i += 1
        for loc, ty in f.params:
            f.locals[loc] = ty
        f.locals.setdefault("_0", f.ret)
        funcs.append(f)
        i += 1
    return funcs


def _params(s):
    out = []
    for p in split_top(s):
        if not p:
            continue
        loc, ty = p.split(":", 1)
        out.append((loc.strip(), ty.strip()))
    return out


# ------------------------------------------------------------------------------------------------
# statements

BINOPS = {"Add", "Sub", "Mul", "Div", "Rem", "BitAnd", "BitOr", "BitXor", "Shl", "Shr", "Eq", "Ne", "Lt", "Le", "Gt", "Ge",
          "AddWithOverflow", "SubWithOverflow", "MulWithOverflow", "AddUnchecked", "SubUnchecked", "MulUnchecked",
          "ShlUnchecked", "ShrUnchecked", "Cmp", "Offset"}
UNOPS = {"Not", "Neg", "PtrMetadata"}

TERM_CALL = re.compile(r"^(?:(.+?) = )?(.+)\((.*)\) -> (?:\[return: (bb\d+), unwind[^\]]*\]|unwind .*)$")


def parse_stmt(st):
    if st.endswith(";"):
        st = st[:-1]
    if st.startswith(("StorageLive", "StorageDead", "nop", "FakeRead", "PlaceMention", "AscribeUserType", "Retag", "Coverage", "ConstEvalCounter", "BackwardIncompatibleDropHint")):
        return ("nop",)
    if st.startswith("goto -> "):
        return ("goto", st[len("goto -> "):])
    if st == "return":
        return ("return",)
    if st == "unreachable":
        return ("unreachable",)
    if st.startswith("switchInt("):
        m = re.match(r"^switchInt\((.+)\) -> \[(.+)\]$", st)
        targets = []
        for t in split_top(m.group(2)):
            k, v = t.split(":")
            targets.append((k.strip(), v.strip()))
        return ("switch", parse_operand(m.group(1)), targets)
    if st.startswith("assert("):
        m = re.match(r"^assert\((.+)\) -> \[success: (bb\d+), unwind[^\]]*\]$", st)
        if not m:
            return ("unsupported", st)
        args = split_top(m.group(1))
        cond = args[0]
        neg = False
        if cond.startswith("!"):
            neg = True
            cond = cond[1:]
        return ("assert", parse_operand(cond), neg, args[1] if len(args) > 1 else "", m.group(2))
    if st.startswith("drop("):
        m = re.match(r"^drop\((.+)\) -> \[return: (bb\d+), unwind[^\]]*\]$", st)
        if m:
            return ("goto", m.group(2))
        return ("unsupported", st)
    if st.startswith(("resume", "abort", "terminate")):
        return ("panic", st)
    if " -> " in st and (st.endswith("]") or "unwind" in st.rsplit(" -> ", 1)[1]):
        # call terminator
        head, tail = st.rsplit(" -> ", 1)
        ret = None
        m = re.match(r"^\[return: (bb\d+), unwind[^\]]*\]$", tail)
        if m:
            ret = m.group(1)
        elif not tail.startswith("unwind"):
            return ("unsupported", st)
        dest = None
        # destination place: text before the first top-level " = "
        eq = _find_assign(head)
        if eq is not None:
            dest = parse_place(head[:eq].strip())
            head = head[eq + 3:].strip()
        # split callee and args at the last top-level '('
        idx = _call_paren(head)
        if idx is None:
            return ("unsupported", st)
        callee = head[:idx].strip()
        args = [parse_operand(a) for a in split_top(head[idx + 1:-1]) if a]
        return ("call", dest, callee, args, ret)
    eq = _find_assign(st)
    if eq is not None:
        lhs = st[:eq].strip()
        rhs = st[eq + 3:].strip()
        if lhs.startswith("discriminant("):
            return ("setdisc", parse_place(lhs[len("discriminant("):-1]), int(rhs))
        return ("assign", parse_place(lhs), parse_rvalue(rhs))
    return ("unsupported", st)


def _find_assign(s):
    depth = 0
    instr = False
    for i, c in enumerate(s):
        if instr:
            if c == '"' and s[i - 1] != "\\":
                instr = False
            continue
        if c == '"':
            instr = True
        elif c in "([{":
            depth += 1
        elif c in ")]}":
            depth -= 1
        elif c == "=" and depth == 0 and s[i - 1:i + 2] == " = ":
            return i - 1
    return None


def _call_paren(s):
    """index of the '(' that opens the argument list of a call `callee(args)` (s ends with ')')"""
    if not s.endswith(")"):
        return None
    depth = 0
    instr = False
    for i in range(len(s) - 1, -1, -1):
        c = s[i]
        if c == '"':
            instr = not instr
            continue
        if instr:
            continue
        if c == ")":
            depth += 1
        elif c == "(":
            depth -= 1
            if depth == 0:
                return i
    return None


# ------------------------------------------------------------------------------------------------
# places, operands, rvalues


def parse_place(s):
    """-> ('local', '_N') | ('field', base, idx, ty) | ('deref', base) | ('index', base, local) |
    ('constindex', base, n) | ('downcast', base, variant)"""
    s = s.strip()
    if re.fullmatch(r"_\d+", s):
        return ("local", s)
    if s.endswith("]"):
        # index projection base[_i] or base[3 of 4]
        depth = 0
        for i in range(len(s) - 1, -1, -1):
            if s[i] == "]":
                depth += 1
            elif s[i] == "[":
                depth -= 1
                if depth == 0:
                    base, idx = s[:i], s[i + 1:-1]
                    if re.fullmatch(r"_\d+", idx):
                        return ("index", parse_place(base), idx)
                    m = re.fullmatch(r"(\d+) of (\d+)", idx)
                    if m:
                        return ("constindex", parse_place(base), int(m.group(1)))
                    return ("unsupported_place", s)
    if s.startswith("(") and s.endswith(")"):
        inner = s[1:-1]
        if inner.startswith("*"):
            return ("deref", parse_place(inner[1:]))
        # field: (BASE.N: TY)
        m = _split_field(inner)
        if m:
            base, idx, ty = m
            return ("field", parse_place(base), idx, ty)
        # downcast: (BASE as Variant)
        m2 = re.match(r"^(.+) as (\w+)$", inner)
        if m2:
            return ("downcast", parse_place(m2.group(1)), m2.group(2))
    if s.startswith("*"):
        return ("deref", parse_place(s[1:]))
    return ("unsupported_place", s)


def _split_field(inner):
    # find top-level ': ' separating 'BASE.N' and type
    depth = 0
    for i, c in enumerate(inner):
        if c in "([{<":
            depth += 1
        elif c in ")]}":
            depth -= 1
        elif c == ">" and inner[i - 1] != "-":
            depth -= 1
        elif c == ":" and depth == 0 and inner[i:i + 2] == ": ":
            left, ty = inner[:i], inner[i + 2:]
            m = re.match(r"^(.+)\.(\d+)$", left)
            if m:
                return m.group(1), int(m.group(2)), ty
            return None
    return None


def parse_operand(s):
    s = s.strip()
    if s.startswith("no_retag "):
        s = s[len("no_retag "):].strip()
    if s.startswith("copy "):
        return ("place", parse_place(s[5:]))
    if s.startswith("move "):
        return ("place", parse_place(s[5:]))
    if s.startswith("const "):
        return ("const", s[6:].strip())
    return ("unsupported_operand", s)


def parse_rvalue(s):
    s = s.strip()
    if s.startswith("no_retag "):
        s = s[len("no_retag "):].strip()
    if s.startswith(("copy ", "move ", "const ")) and " as " not in _strip_brackets(s, angle=True):
        return ("use", parse_operand(s))
    m = re.match(r"^(\w+)\((.*)\)$", s)
    if m and m.group(1) in BINOPS:
        a, b = split_top(m.group(2))
        return ("binop", m.group(1), parse_operand(a), parse_operand(b))
    if m and m.group(1) in UNOPS:
        return ("unop", m.group(1), parse_operand(m.group(2)))
    if s.startswith("discriminant("):
        return ("discriminant", parse_place(s[len("discriminant("):-1]))
    if s.startswith("Len("):
        return ("len", parse_place(s[4:-1]))
    if s.startswith("&raw "):
        return ("ref", parse_place(s.split(" ", 2)[2]))
    if s.startswith("&mut "):
        return ("ref", parse_place(s[5:]))
    if s.startswith("&"):
        return ("ref", parse_place(s[1:].strip()))
    # cast
    mc = re.match(r"^(.+) as (.+?) \((\w+(?:\([^)]*\))?)\)$", s)
    if mc:
        return ("cast", parse_operand(mc.group(1)), mc.group(2), mc.group(3))
    # tuple aggregate
    if s.startswith("(") and s.endswith(")"):
        parts = split_top(s[1:-1])
        if s == "()":
            return ("tuple", [])
        return ("tuple", [parse_operand(p) for p in parts if p != ""])
    # array aggregate / repeat
    if s.startswith("[") and s.endswith("]"):
        inner = s[1:-1]
        parts = split_top(inner, ";")
        if len(parts) == 2:
            return ("repeat", parse_operand(parts[0]), parts[1].strip())
        return ("array", [parse_operand(p) for p in split_top(inner) if p != ""])
    # closure aggregate  {closure@file:l:c: l:c} { captured: op, ... }
    mcl = re.match(r"^(\{closure@[^}]*\})(?: \{ (.*) \})?$", s)
    if mcl:
        fields = []
        if mcl.group(2):
            for p in split_top(mcl.group(2)):
                k, v = p.split(":", 1)
                fields.append((k.strip(), parse_operand(v)))
        return ("struct", mcl.group(1), fields)
    # struct aggregate  Path { f: op, ... }
    ms = re.match(r"^([^{]+?) \{ (.*) \}$", s)
    if ms:
        fields = []
        for p in split_top(ms.group(2)):
            k, v = p.split(":", 1)
            fields.append((k.strip(), parse_operand(v)))
        return ("struct", ms.group(1).strip(), fields)
    ms = re.match(r"^([^{(]+?) \{\s*\}$", s)
    if ms:
        return ("struct", ms.group(1).strip(), [])
    # enum variant / tuple struct constructor  Path(args)  or unit variant Path
    idx = _call_paren(s)
    if idx is not None and idx > 0:
        return ("ctor", s[:idx].strip(), [parse_operand(a) for a in split_top(s[idx + 1:-1]) if a != ""])
    if re.fullmatch(r"[\w:<>, &'\[\];]+", s):
        return ("ctor", s, [])
    return ("unsupported_rvalue", s)


def _strip_brackets(s, angle=False):
    """text outside brackets; with angle=True also outside <...> (a qualified path `<T as Trait>::x` is not a cast)"""
    out, depth = [], 0
    op, cl = ("([{<", ")]}>") if angle else ("([{", ")]}")
    s = s.replace("->", "  ") if angle else s
    for c in s:
        if c in op:
            depth += 1
        elif c in cl:
            depth -= 1
        elif depth == 0:
            out.append(c)
    return "".join(out)
