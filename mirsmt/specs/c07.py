"""C07 — time-of-day arithmetic wraps by whole days and honours leap-second operands (full domains)."""
import z3
from api import obligation, opt_is_some, opt_payload
from symex import IntV, Agg
import importlib.util, os
_spec = importlib.util.spec_from_file_location("spec_c06_shared", os.path.join(os.path.dirname(__file__), "c06.py"))

G = 1000000000
DAY = 86400
I64MAX = (1 << 63) - 1
MAXV = I64MAX * 1000000
MINV = -MAXV


def td_value(td):
    return td.fields[0].e * G + td.fields[1].e


def td_input(o, tag):
    s = o.input("s" + tag, "i64")
    n = o.input("n" + tag, "i32")
    o.require(z3.And(n.e >= 0, n.e < G, s.e * G + n.e >= MINV, s.e * G + n.e <= MAXV))
    return Agg("struct", "TimeDelta", [s, n]), s.e * G + n.e


def time_input(o, tag):
    """any NaiveTime the public API can build: secs < 86400, frac < 2e9 (leap representation on any second)"""
    s = o.input("ts" + tag, "u32")
    f = o.input("tf" + tag, "u32")
    o.require(z3.And(s.e < DAY, f.e < 2 * G))
    return Agg("struct", "NaiveTime", [s, f]), s.e, f.e


def ref_add(ts, tf, delta):
    """reference from the documented rules: the operand's leap second is the only one there is.
    returns (secs, frac, carry_seconds) as z3 terms"""
    leap = tf >= G
    L = (ts + 1) * G                      # start of the leap second on the operand's own timeline
    P = z3.If(leap, L + (tf - G), ts * G + tf)
    Pn = P + delta
    stay = z3.And(leap, Pn >= L, Pn < L + G)
    R = z3.If(z3.And(leap, Pn >= L + G), Pn - G, Pn)   # position on the plain 86400-second timeline
    day = R / (DAY * G)                   # floor
    rem = R - day * (DAY * G)
    secs = z3.If(stay, ts, rem / G)
    frac = z3.If(stay, G + (Pn - L), rem % G)
    carry = z3.If(stay, 0, day * DAY)
    return secs, frac, carry


@obligation(prop="C07", also=("C15",), tier="quick", timeout=900, probe="time_add",
            desc="overflowing_add_signed(time, delta) follows the documented leap-second rules (stay in / leave / skip the operand's own leap second) and otherwise wraps modulo 24 h with the carry reported in whole days (as seconds); result is a valid time; overflowing_sub_signed(x) is overflowing_add_signed(-x) with the same time and the carry negated (days borrowed), as documented",
            bounds="all times of day incl. leap representations on any second (86400 x 2*10^9) x all in-range TimeDeltas")
def c07_m_time_add(o):
    t, ts, tf = time_input(o, "")
    d, dv = td_input(o, "d")
    r = o.call("NaiveTime::overflowing_add_signed", o.ref(t), d, name="add")
    r2 = o.call("NaiveTime::overflowing_sub_signed", o.ref(t), d, name="sub")
    nt, carry = r.fields[0], r.fields[1]
    nt2, carry2 = r2.fields[0], r2.fields[1]
    o.flat = [nt.fields[0].e, nt.fields[1].e, carry.e, nt2.fields[0].e, nt2.fields[1].e, carry2.e]
    o.no_panic()
    o.reachable("leap_stay", z3.And(tf >= G, nt.fields[1].e >= G))
    o.reachable("leap_leave_forward", z3.And(tf >= G, dv > 0, nt.fields[1].e < G))
    o.reachable("negative_carry", carry.e < 0)
    es, ef, ec = ref_add(ts, tf, dv)
    o.claim("add_valid_time", z3.And(nt.fields[0].e >= 0, nt.fields[0].e < DAY, nt.fields[1].e >= 0, nt.fields[1].e < 2 * G))
    splits = [z3.And(tf >= G, dv >= 0), z3.And(tf >= G, dv < 0), z3.And(tf < G, dv >= 0), z3.And(tf < G, dv < 0)]
    o.claim("add_matches_rules", z3.And(nt.fields[0].e == es, nt.fields[1].e == ef, carry.e == ec), splits=splits)
    s2, f2, c2 = ref_add(ts, tf, -dv)
    o.claim("sub_is_add_of_negation", z3.And(nt2.fields[0].e == s2, nt2.fields[1].e == f2, carry2.e == -c2), splits=splits)


def ref_pos_pair(as_, af, bs, bf):
    """documented timeline for Time - Time: each leap operand contributes its own leap second, counted when it lies
    strictly between the two operands' seconds"""
    adj = z3.If(z3.And(as_ > bs, bf >= G), G, z3.If(z3.And(as_ < bs, af >= G), -G, 0))
    return (as_ - bs) * G + (af - bf) + adj


@obligation(prop="C07", also=("C15",), tier="quick", timeout=600, probe="time_diff",
            desc="NaiveTime::signed_duration_since is the exact distance on the documented timeline (leap operands count their own leap second), a well-formed in-range TimeDelta, antisymmetric: (a-b) == -(b-a); for two non-leap times it is the plain difference",
            bounds="all pairs of times of day incl. leap representations")
def c07_m_time_diff(o):
    a, as_, af = time_input(o, "a")
    b, bs, bf = time_input(o, "b")
    r1 = o.call("NaiveTime::signed_duration_since", a, b, name="ab")
    r2 = o.call("NaiveTime::signed_duration_since", b, a, name="ba")
    adj1 = z3.And(r1.fields[0].e < 0, r1.fields[1].e > 0)
    adj2 = z3.And(r2.fields[0].e < 0, r2.fields[1].e > 0)
    o.flat = [z3.If(adj1, r1.fields[0].e + 1, r1.fields[0].e), z3.If(adj1, r1.fields[1].e - G, r1.fields[1].e),
              z3.If(adj2, r2.fields[0].e + 1, r2.fields[0].e), z3.If(adj2, r2.fields[1].e - G, r2.fields[1].e)]
    o.no_panic()
    o.reachable("both_leap", z3.And(af >= G, bf >= G, as_ != bs))
    v1, v2 = td_value(r1), td_value(r2)
    o.claim("exact_distance", v1 == ref_pos_pair(as_, af, bs, bf))
    o.claim("antisymmetric", v1 == -v2)
    o.claim("well_formed", z3.And(r1.fields[1].e >= 0, r1.fields[1].e < G))
    o.claim("plain_difference_without_leap", z3.Implies(z3.And(af < G, bf < G), v1 == (as_ * G + af) - (bs * G + bf)))


@obligation(prop="C07", also=("C15",), tier="quick", timeout=600, probe="time_offset",
            desc="overflowing_add_offset / overflowing_sub_offset shift the second-of-day by the offset modulo one day, report the day carry (-1, 0, +1) and keep the (possibly leap) fraction unchanged",
            bounds="all times of day incl. leap representations x all offsets in (-86400, 86400) s")
def c07_m_time_offset(o):
    t, ts, tf = time_input(o, "")
    off = o.input("off", "i32")
    o.require(z3.And(off.e > -DAY, off.e < DAY))
    fo = Agg("struct", "FixedOffset", [off])
    r1 = o.call("NaiveTime::overflowing_add_offset", o.ref(t), fo, name="add")
    r2 = o.call("NaiveTime::overflowing_sub_offset", o.ref(t), fo, name="sub")
    o.flat = [r1.fields[0].fields[0].e, r1.fields[0].fields[1].e, r1.fields[1].e, r2.fields[0].fields[0].e, r2.fields[0].fields[1].e, r2.fields[1].e]
    o.no_panic()
    o.reachable("carry_back", r1.fields[1].e == -1)
    for nm, r, sgn in (("add", r1, 1), ("sub", r2, -1)):
        tot = ts + sgn * off.e
        day = tot / DAY
        o.claim(nm + "_offset", z3.And(r.fields[0].fields[0].e == tot - day * DAY, r.fields[1].e == day, r.fields[0].fields[1].e == tf))
