"""C17 — rounding and truncation land on the right multiple (NaiveDateTime / NaiveTime instantiations).

duration_trunc / duration_round / duration_round_up are executed from the generic MIR instantiated at T = NaiveDateTime.
Two callees are used through contracts proved elsewhere:
  * DateTime<Utc>::timestamp_nanos_opt  -- M:c02_m_accessors (exact count, Some iff it fits in i64)
  * <NaiveDateTime as Add/Sub<TimeDelta>> -- exact instant arithmetic for non-leap operands (C03/C07 obligations);
    here the contract is: result instant = instant +/- delta, panic iff that instant is not representable.
The claim is on instants counted in nanoseconds from the Unix epoch on the naive reading."""
import os
import importlib.util
import z3
from api import obligation, opt_is_some, opt_payload
from symex import IntV, Agg, EnumV, State, Unsupported
import api as _api

_saved = list(_api.REGISTRY)
_spec = importlib.util.spec_from_file_location("c07_shared_for_c17", os.path.join(os.path.dirname(__file__), "c07.py"))
c07 = importlib.util.module_from_spec(_spec)
_spec.loader.exec_module(c07)
_api.REGISTRY[:] = _saved

G = 1000000000
DAY = 86400
EPOCH = 719163
MINY, MAXY = -262143, 262142
LO, HI = -95746129, 95745399
I64MIN, I64MAX = -(1 << 63), (1 << 63) - 1
NS_LO = (LO - EPOCH) * DAY * G              # first representable instant (ns)
NS_HI = ((HI - EPOCH) * DAY + DAY) * G - 1  # last representable non-leap instant (ns)


class Inst:
    """abstract NaiveDateTime: an instant N (ns since epoch, non-leap reading) plus the time-of-day fraction"""


def ndt_input(o, tag):
    """symbolic non-leap NaiveDateTime represented abstractly by its instant; the concrete struct carries fresh
    date/time words tied to the instant by side constraints used only through the contracts below"""
    N = o.input("N" + tag, "i128")
    o.require(z3.And(N.e >= NS_LO, N.e <= NS_HI))
    return Agg("struct", "NaiveDateTime", [Agg("abstract", "instant", [N])]), N.e


def inst_of(v):
    return v.fields[0].fields[0].e


def mk_ndt(e):
    return Agg("struct", "NaiveDateTime", [Agg("abstract", "instant", [IntV(e, "i128")])])


def sum_and_utc(ex, st, args):
    return st, Agg("struct", "DateTime", [ex.load(st, args[0]), Agg("struct", "Utc", [])])


def sum_ts_nanos(ex, st, args):
    dt = ex.load(st, args[0])
    n = inst_of(dt.fields[0])
    return st, EnumV("Option", z3.If(z3.And(n >= I64MIN, n <= I64MAX), 1, 0), {1: [IntV(n, "i64")]})


def _arith(sign):
    def f(ex, st, args):
        dt = ex.load(st, args[0])
        td = args[1]
        n = inst_of(dt) + sign * (td.fields[0].e * G + td.fields[1].e)
        ok = z3.And(n >= NS_LO, n <= NS_HI)
        ex.panics.append((z3.And(st.pc, z3.Not(ok)), "`NaiveDateTime + TimeDelta` overflowed", "Add/Sub for NaiveDateTime"))
        return State(z3.And(st.pc, ok), st.mem), mk_ndt(n)
    return f


def sum_nanosecond(ex, st, args):
    dt = ex.load(st, args[0])
    return st, IntV(inst_of(dt) % G, "u32")


def use_contracts(o):
    o.summarize("naive::datetime::and_utc", sum_and_utc)
    o.summarize("datetime::timestamp_nanos_opt", sum_ts_nanos)
    o.summarize("naive::datetime::add", _arith(1))
    o.summarize("naive::datetime::sub", _arith(-1))


def td_input(o, tag):
    return c07.td_input(o, tag)


def _round_ob(fn, kind):
    @obligation(prop="C17", tier="quick", timeout=900, probe="round_" + fn,
                desc=f"{fn} on NaiveDateTime: Ok(r) exactly when the span is positive, expressible in i64 nanoseconds and the timestamp fits in i64 nanoseconds; then r is the {kind} multiple of the span counted from the Unix epoch, |r - input| < span, multiples are returned unchanged (hence idempotent); errors are classified as documented; the function panics only if the rounded instant itself is not representable (never inside the i64-nanosecond window)",
                bounds="all non-leap NaiveDateTimes (as instants) x all in-range TimeDeltas; symbolic divisor via the division lemma; timestamp_nanos_opt and NaiveDateTime +/- TimeDelta through their proved contracts",
                outside="leap-second operands (C07 rules apply); the DateTime<Tz> instantiation is covered by Kani glue harnesses")
    def ob(o):
        use_contracts(o)
        o.set_tyenv(T="NaiveDateTime")
        dt, N = ndt_input(o, "")
        td, v = td_input(o, "d")
        r = o.call(fn + "::<NaiveDateTime>", dt, dt, td)
        ok = r.disc == 0
        _res0 = inst_of(r.payload[0][0])
        _err0 = r.payload.get(1, [None])[0]
        o.flat = [z3.If(ok, 1, 0), z3.If(ok, _res0, _err0.disc if _err0 is not None else 0)]
        o.no_panic()
        o.reachable("ok_negative_stamp", z3.And(ok, N < 0))
        o.reachable("ok_negative_remainder", z3.And(ok, N < 0, inst_of(r.payload[0][0]) != N))
        o.reachable("err", z3.Not(ok))
        span_ok = z3.And(v > 0, v <= I64MAX)
        stamp_ok = z3.And(N >= I64MIN, N <= I64MAX)
        o.claim("ok_iff", ok == z3.And(span_ok, stamp_ok))
        res = inst_of(r.payload[0][0])
        # "res is a multiple of the span": exhibited by a witness built from the code's own truncating quotient
        # (the only symbolic division executed: stamp % span, with its defining lemma stamp == q*span + rem).
        divs = list(o.ex.div_cache.values())
        if len(divs) != 1:
            raise Unsupported(f"expected exactly one symbolic division in {fn}, found {len(divs)}")
        qc, rc = divs[0]
        qv = qc * v                       # the same product term as in the division lemma: the claims stay linear in it
        floor_mult = z3.If(rc >= 0, qv, qv - v)
        ceil_mult = z3.If(rc > 0, qv + v, qv)
        if kind == "greatest-not-after":
            o.claim("is_a_multiple_of_the_span", z3.Implies(ok, res == floor_mult))
            o.claim("greatest_not_after", z3.Implies(ok, z3.And(res <= N, N < res + v)))
        elif kind == "least-not-before":
            o.claim("is_a_multiple_of_the_span", z3.Implies(ok, res == ceil_mult))
            o.claim("least_not_before", z3.Implies(ok, z3.And(res >= N, N > res - v)))
        else:
            o.claim("is_a_multiple_of_the_span", z3.Implies(ok, z3.Or(res == floor_mult, res == ceil_mult)))
            o.claim("nearest_ties_up", z3.Implies(ok, z3.And(2 * (res - N) <= v, 2 * (res - N) > -v)))
        o.claim("within_one_span", z3.Implies(ok, z3.And(res - N < v, N - res < v)))
        o.claim("multiples_unchanged", z3.Implies(z3.And(ok, rc == 0), res == N))
        err = r.payload.get(1, [None])[0]
        if err is not None:
            # RoundingError: DurationExceedsTimestamp=0, DurationExceedsLimit=1, TimestampExceedsLimit=2
            o.claim("error_kind", z3.Implies(z3.Not(ok), err.disc == z3.If(span_ok, 2, 1)))
    ob.__name__ = "c17_m_" + fn
    return ob


for _fn, _k in (("duration_trunc", "greatest-not-after"), ("duration_round_up", "least-not-before"), ("duration_round", "nearest (ties up)")):
    globals()["c17_m_" + _fn] = _round_ob(_fn, _k)
for _ob in _api.REGISTRY:
    if _ob.fn.__name__.startswith("c17_m_duration_"):
        _ob.name = _ob.fn.__name__


@obligation(prop="C17", tier="quick", timeout=900, probe="time_subsec",
            desc="SubsecRound on NaiveTime (the generic impl instantiated at NaiveTime): trunc_subsecs(d) clears the digits below 10^(9-min(d,9)) within the second; round_subsecs(d) goes to the nearer multiple with ties up, carrying into the next second (wrapping at midnight); leap-second fractions follow the documented leap rules",
            bounds="all times of day incl. leap representations x all u16 digit counts")
def c17_m_subsec(o):
    o.set_tyenv(T="NaiveTime")
    t, ts, tf = c07.time_input(o, "")
    dg = o.input("digits", "u16")
    r = o.call("<NaiveTime as SubsecRound>::round_subsecs", t, dg, name="round")
    u = o.call("<NaiveTime as SubsecRound>::trunc_subsecs", t, dg, name="trunc")
    o.flat = [r.fields[0].e, r.fields[1].e, u.fields[0].e, u.fields[1].e]
    o.no_panic()
    o.reachable("carry", z3.And(r.fields[0].e != ts, tf < G))
    o.reachable("leap", tf >= G)
    span = z3.IntVal(1)
    for k, sp in ((8, 10), (7, 100), (6, 1000), (5, 10000), (4, 100000), (3, 1000000), (2, 10000000), (1, 100000000), (0, 1000000000)):
        span = z3.If(dg.e == k, sp, span)
    f = tf % G
    rem = f % span
    sp = [dg.e == k for k in range(9)] + [dg.e >= 9]
    o.claim("trunc", z3.And(u.fields[0].e == ts, u.fields[1].e == tf - rem), splits=sp)
    delta = z3.If(z3.And(rem > 0, 2 * rem >= span), span - rem, -rem)
    es, ef, ec = c07.ref_add(ts, tf, delta)
    o.claim("round", z3.And(r.fields[0].e == es, r.fields[1].e == ef), splits=sp)
