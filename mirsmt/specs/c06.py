"""C06 — TimeDelta is an exact signed nanosecond count in a closed range (full i64/i32 domains)."""
import z3
from api import obligation, opt_is_some, opt_payload
from symex import IntV, Agg, EnumV

G = 1000000000
I64MAX = (1 << 63) - 1
MAXV = I64MAX * 1000000          # +(2^63-1) ms in ns
MINV = -MAXV


def td_value(td):
    return td.fields[0].e * G + td.fields[1].e


def td_input(o, tag):
    s = o.input("s" + tag, "i64")
    n = o.input("n" + tag, "i32")
    o.require(z3.And(n.e >= 0, n.e < G, s.e * G + n.e >= MINV, s.e * G + n.e <= MAXV))
    return Agg("struct", "TimeDelta", [s, n]), s.e * G + n.e


def well_formed(td):
    s, n = td.fields[0].e, td.fields[1].e
    return z3.And(n >= 0, n < G, s * G + n >= MINV, s * G + n <= MAXV)


def flat_opt_td(r):
    some = opt_is_some(r)
    td = opt_payload(r)
    # native side prints num_seconds / subsec_nanos (truncating view): convert the floor representation
    s, n = td.fields[0].e, td.fields[1].e
    adj = z3.And(s < 0, n > 0)
    return [z3.If(some, 1, 0), z3.If(some, z3.If(adj, s + 1, s), 0), z3.If(some, z3.If(adj, n - G, n), 0)]


def flat_td(td):
    s, n = td.fields[0].e, td.fields[1].e
    adj = z3.And(s < 0, n > 0)
    return [z3.If(adj, s + 1, s), z3.If(adj, n - G, n)]


@obligation(prop="C06", also=("C15",), tier="quick", timeout=300, probe="td_new",
            desc="TimeDelta::new(secs, nanos) is Some exactly when nanos < 10^9 and secs*10^9+nanos lies in [-(2^63-1) ms, +(2^63-1) ms]; the value is exactly that count",
            bounds="all i64 secs x all u32 nanos")
def c06_m_new(o):
    s = o.input("s", "i64")
    n = o.input("n", "u32")
    r = o.call("TimeDelta::new", s, n)
    o.flat = flat_opt_td(r)
    o.no_panic()
    some = opt_is_some(r)
    v = s.e * G + n.e
    o.reachable("some", some)
    o.reachable("none_nanos", z3.And(z3.Not(some), n.e >= G))
    o.reachable("none_range", z3.And(z3.Not(some), n.e < G))
    o.claim("some_iff_valid", some == z3.And(n.e < G, v >= MINV, v <= MAXV))
    o.claim("value_exact", z3.Implies(some, z3.And(td_value(opt_payload(r)) == v, well_formed(opt_payload(r)))))


UNITS = [("try_weeks", 604800 * G), ("try_days", 86400 * G), ("try_hours", 3600 * G), ("try_minutes", 60 * G),
         ("try_seconds", G), ("try_milliseconds", 1000000)]


def _unit_ob(fn, unit):
    @obligation(prop="C06", also=("C15",), tier="quick", timeout=300, probe="td_" + fn,
                desc=f"TimeDelta::{fn}(x) is Some exactly when x*unit lies in the TimeDelta range, and then equals exactly x units; never panics",
                bounds="all i64 arguments")
    def ob(o):
        x = o.input("x", "i64")
        r = o.call("TimeDelta::" + fn, x)
        o.flat = flat_opt_td(r)
        o.no_panic()
        some = opt_is_some(r)
        v = x.e * unit
        o.reachable("some", some)
        o.reachable("none", z3.Not(some))
        o.claim("some_iff_in_range", some == z3.And(v >= MINV, v <= MAXV))
        o.claim("value_exact", z3.Implies(some, z3.And(td_value(opt_payload(r)) == v, well_formed(opt_payload(r)))))
    ob.__name__ = "c06_m_" + fn
    return ob


for _fn, _u in UNITS:
    globals()["c06_m_" + _fn] = _unit_ob(_fn, _u)
# re-register with the right names (the decorator captured the generic name)
import api as _api
for _ob in _api.REGISTRY:
    if _ob.fn.__name__.startswith("c06_m_try_"):
        _ob.name = _ob.fn.__name__


def _small_unit_ob(fn, unit):
    @obligation(prop="C06", also=("C15",), tier="quick", timeout=300, probe="td_" + fn,
                desc=f"TimeDelta::{fn}(x) (infallible) is exactly x units and inside the range for every i64; no panic edge reachable",
                bounds="all i64 arguments")
    def ob(o):
        x = o.input("x", "i64")
        r = o.call("TimeDelta::" + fn, x)
        o.flat = flat_td(r)
        o.no_panic()
        o.reachable("neg", x.e < 0)
        o.claim("value_exact", z3.And(td_value(r) == x.e * unit, well_formed(r)))
    ob.__name__ = "c06_m_" + fn
    return ob


for _fn, _u in [("microseconds", 1000), ("nanoseconds", 1)]:
    globals()["c06_m_" + _fn] = _small_unit_ob(_fn, _u)
for _ob in _api.REGISTRY:
    if _ob.fn.__name__ in ("c06_m_microseconds", "c06_m_nanoseconds"):
        _ob.name = _ob.fn.__name__


@obligation(prop="C06", also=("C15",), tier="quick", timeout=600, probe="td_add_sub",
            desc="checked_add / checked_sub return the exact sum / difference, or None exactly when it lies outside the range; results are well-formed and in range; no panic (intermediate i64/i32 additions cannot overflow)",
            bounds="all pairs of in-range TimeDeltas (i64 secs x i32 nanos each)")
def c06_m_add_sub(o):
    a, va = td_input(o, "a")
    b, vb = td_input(o, "b")
    r1 = o.call("TimeDelta::checked_add", o.ref(a), o.ref(b), name="add")
    r2 = o.call("TimeDelta::checked_sub", o.ref(a), o.ref(b), name="sub")
    o.flat = flat_opt_td(r1) + flat_opt_td(r2)
    o.no_panic()
    o.reachable("add_none", z3.Not(opt_is_some(r1)))
    o.reachable("sub_none", z3.Not(opt_is_some(r2)))
    o.reachable("both_some", z3.And(opt_is_some(r1), opt_is_some(r2)))
    for nm, r, v in (("add", r1, va + vb), ("sub", r2, va - vb)):
        o.claim(nm + "_some_iff_in_range", opt_is_some(r) == z3.And(v >= MINV, v <= MAXV))
        o.claim(nm + "_exact", z3.Implies(opt_is_some(r), z3.And(td_value(opt_payload(r)) == v, well_formed(opt_payload(r)))))


@obligation(prop="C06", also=("C15",), tier="quick", timeout=600, probe="td_neg_abs",
            desc="neg (unary minus) and abs return the exact negation / absolute value, always well-formed and in range (the range is symmetric); no panic edge reachable (i64::abs never sees i64::MIN)",
            bounds="all in-range TimeDeltas")
def c06_m_neg_abs(o):
    a, va = td_input(o, "a")
    r1 = o.call("<TimeDelta as Neg>::neg", a, name="neg")
    r2 = o.call("TimeDelta::abs", o.ref(a), name="abs")
    o.flat = flat_td(r1) + flat_td(r2)
    o.no_panic()
    o.reachable("negative_fraction", z3.And(a.fields[0].e < 0, a.fields[1].e > 0))
    o.claim("neg_exact", z3.And(td_value(r1) == -va, well_formed(r1)))
    o.claim("abs_exact", z3.And(td_value(r2) == z3.If(va >= 0, va, -va), well_formed(r2)))


@obligation(prop="C06", also=("C15",), tier="quick", timeout=900, probe="td_mul",
            desc="checked_mul(i32) returns the exact product, or None exactly when the product lies outside the TimeDelta range; a Some result is always inside the range (finding F2 on the original tree)",
            bounds="all in-range TimeDeltas x all i32 multipliers; products are linear in the atoms secs*k and nanos*k")
def c06_m_mul(o):
    a, va = td_input(o, "a")
    k = o.input("k", "i32")
    r = o.call("TimeDelta::checked_mul", o.ref(a), k)
    o.flat = flat_opt_td(r)
    o.no_panic()
    prod = (a.fields[0].e * k.e) * G + a.fields[1].e * k.e   # = va * k by distributivity
    some = opt_is_some(r)
    o.reachable("some", some)
    o.reachable("none", z3.Not(some))
    o.claim("some_iff_in_range", some == z3.And(prod >= MINV, prod <= MAXV))
    o.claim("exact_and_in_range", z3.Implies(some, z3.And(td_value(opt_payload(r)) == prod, well_formed(opt_payload(r)))))


@obligation(prop="C06", also=("C15",), tier="quick", timeout=900, probe="td_div",
            desc="checked_div(i32): None exactly for divisor 0; otherwise the result r is well-formed, in range and |r*k - a| < 2|k| ns (less than two nanoseconds from the exact quotient); no panic",
            bounds="all in-range TimeDeltas x all i32 divisors (symbolic divisor via the division lemma)")
def c06_m_div(o):
    a, va = td_input(o, "a")
    k = o.input("k", "i32")
    r = o.call("TimeDelta::checked_div", o.ref(a), k)
    o.flat = flat_opt_td(r)
    o.no_panic()
    some = opt_is_some(r)
    o.reachable("some_neg_divisor", z3.And(some, k.e < 0))
    o.reachable("none", z3.Not(some))
    o.claim("none_iff_zero", some == (k.e != 0))
    res = opt_payload(r)
    rs, rn = res.fields[0].e, res.fields[1].e
    o.claim("well_formed", z3.Implies(some, well_formed(res)))
    err = (rs * k.e) * G + rn * k.e - va
    absk = z3.If(k.e >= 0, k.e, -k.e)
    o.claim("within_two_ns", z3.Implies(some, z3.And(err < 2 * absk, -err < 2 * absk)))


def trunc_div(v, u):
    return z3.If(v >= 0, v / u, -((-v) / u))


@obligation(prop="C06", also=("C15",), tier="quick", timeout=600, probe="td_accessors",
            desc="unit accessors truncate toward zero and sub-unit parts carry the same sign: num_weeks/days/hours/minutes/seconds/milliseconds, num_microseconds/num_nanoseconds (None exactly when the count does not fit i64), subsec_nanos/micros/millis; is_zero",
            bounds="all in-range TimeDeltas")
def c06_m_accessors(o):
    a, va = td_input(o, "a")
    ra = o.ref(a)
    g = {}
    for fn in ("num_weeks", "num_days", "num_hours", "num_minutes", "num_seconds", "num_milliseconds", "subsec_nanos", "subsec_micros", "subsec_millis"):
        g[fn] = o.call("TimeDelta::" + fn, ra, name=fn)
    us = o.call("TimeDelta::num_microseconds", ra, name="us")
    ns = o.call("TimeDelta::num_nanoseconds", ra, name="ns")
    z = o.call("TimeDelta::is_zero", ra, name="is_zero")
    o.flat = [g[f].e for f in g] + [z3.If(opt_is_some(us), 1, 0), z3.If(opt_is_some(us), opt_payload(us).e, 0),
                                    z3.If(opt_is_some(ns), 1, 0), z3.If(opt_is_some(ns), opt_payload(ns).e, 0), z3.If(z.e, 1, 0)]
    o.no_panic()
    o.reachable("negative_fraction", z3.And(a.fields[0].e < 0, a.fields[1].e > 0))
    o.reachable("ns_none", z3.Not(opt_is_some(ns)))
    for fn, u in (("num_weeks", 604800 * G), ("num_days", 86400 * G), ("num_hours", 3600 * G), ("num_minutes", 60 * G), ("num_seconds", G), ("num_milliseconds", 1000000)):
        o.claim(fn, g[fn].e == trunc_div(va, u))
    rem = va - trunc_div(va, G) * G
    o.claim("subsec_nanos", g["subsec_nanos"].e == rem)
    o.claim("subsec_micros", g["subsec_micros"].e == trunc_div(rem, 1000))
    o.claim("subsec_millis", g["subsec_millis"].e == trunc_div(rem, 1000000))
    i64lo = -(1 << 63)
    for nm, r, u in (("num_microseconds", us, 1000), ("num_nanoseconds", ns, 1)):
        q = trunc_div(va, u)
        o.claim(nm + "_some_iff_fits", opt_is_some(r) == z3.And(q >= i64lo, q <= I64MAX))
        o.claim(nm + "_value", z3.Implies(opt_is_some(r), opt_payload(r).e == q))
    o.claim("is_zero", z.e == (va == 0))


@obligation(prop="C06", also=("C15",), tier="quick", timeout=600, probe="td_cmp",
            desc="derived PartialOrd/Ord/PartialEq on TimeDelta agree with the numeric order of the nanosecond counts",
            bounds="all pairs of in-range TimeDeltas")
def c06_m_ord(o):
    a, va = td_input(o, "a")
    b, vb = td_input(o, "b")
    c = o.call("<TimeDelta as Ord>::cmp", o.ref(a), o.ref(b), name="cmp")
    e = o.call("<TimeDelta as PartialEq>::eq", o.ref(a), o.ref(b), name="eq")
    pc = o.call("<TimeDelta as PartialOrd>::partial_cmp", o.ref(a), o.ref(b), name="partial_cmp")
    o.flat = [c.disc, z3.If(e.e, 1, 0)]
    o.no_panic()
    o.reachable("less", va < vb)
    o.claim("cmp_numeric", c.disc == z3.If(va < vb, -1, z3.If(va == vb, 0, 1)))
    o.claim("eq_numeric", e.e == (va == vb))
    o.claim("partial_cmp_is_cmp", z3.And(opt_is_some(pc), opt_payload(pc).disc == c.disc))


@obligation(prop="C06", also=("C15",), tier="quick", timeout=600, probe="td_std",
            desc="from_std(Duration) is Ok exactly when the duration fits the range and then exact; to_std is Ok exactly for non-negative values and exact",
            bounds="all std Durations (u64 secs x nanos < 10^9) / all in-range TimeDeltas")
def c06_m_std(o):
    ds = o.input("ds", "u64")
    dn = o.input("dn", "u32")
    o.require(dn.e < G)
    dur = Agg("struct", "Duration", [ds, dn])
    r = o.call("TimeDelta::from_std", dur, name="from_std")
    a, va = td_input(o, "a")
    t = o.call("TimeDelta::to_std", o.ref(a), name="to_std")
    ok1 = r.disc == 0
    ok2 = t.disc == 0
    td = r.payload[0][0]
    du = t.payload[0][0]
    o.flat = [z3.If(ok1, 1, 0)] + [z3.If(ok1, x, 0) for x in flat_td(td)] + [z3.If(ok2, 1, 0), z3.If(ok2, du.fields[0].e, 0), z3.If(ok2, du.fields[1].e, 0)]
    o.no_panic()
    v = ds.e * G + dn.e
    o.reachable("from_err", z3.Not(ok1))
    o.reachable("to_err", z3.Not(ok2))
    o.claim("from_std_ok_iff_fits", ok1 == (v <= MAXV))
    o.claim("from_std_exact", z3.Implies(ok1, z3.And(td_value(td) == v, well_formed(td))))
    o.claim("to_std_ok_iff_nonneg", ok2 == (va >= 0))
    o.claim("to_std_exact", z3.Implies(ok2, z3.And(du.fields[0].e * G + du.fields[1].e == va, du.fields[1].e < G)))
