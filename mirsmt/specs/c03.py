"""C03 — adding / subtracting elapsed time is exact or refused (full domains).

The 400-year-cycle kernels (cycle_to_yo / yo_to_cycle) are used through the contracts proved by M:c01_m_cycle_to_yo and
M:c01_m_yo_to_cycle; NaiveDate::add_days, signed_duration_since, checked_add_signed etc. are executed from the MIR."""
import os
import importlib.util
import z3
from api import obligation, opt_is_some, opt_payload
from symex import IntV, Agg, EnumV

_p = os.path.join(os.path.dirname(__file__), "c01.py")
_spec = importlib.util.spec_from_file_location("c01_shared_for_c03", _p)
# import helpers from c01 without re-registering its obligations
import api as _api
_saved = list(_api.REGISTRY)
c01 = importlib.util.module_from_spec(_spec)
_spec.loader.exec_module(c01)
_api.REGISTRY[:] = _saved

G = 1000000000
DAY = 86400
MINY, MAXY = c01.MINY, c01.MAXY
dayno, is_leap = c01.dayno, c01.is_leap
LO, HI = -95746129, 95745399
I64MAX = (1 << 63) - 1
MAXV = I64MAX * 1000000
MINV = -MAXV


def date_input(o, tag):
    """a symbolic NaiveDate satisfying the representation invariant (year in range, 1 <= ordinal <= 365/366, flags =
    YearFlags::from_year(year) computed by the real table lookup).  The Kani harness c01_yo_valid_iff shows that the
    constructors produce exactly these values."""
    y = o.input("y" + tag, "i32")
    d = o.input("o" + tag, "u32")
    o.require(z3.And(y.e >= MINY, y.e <= MAXY, d.e >= 1, d.e <= z3.If(is_leap(y.e), 366, 365)))
    fl = o.call("YearFlags::from_year", y, name="flags" + tag)
    fe = z3.Int("flags" + tag)           # a name for the table value (definitional equality, not an assumption)
    o.require(fe == fl.fields[0].e)
    if "naive::internals::from_year_mod_400" in o.ex.summaries:
        c01.cycle_lemmas(o) if not getattr(o, "lemmas", {}).get("leap_periodic") else None
        o.use_lemma("leap_periodic", y.e / 400, y.e % 400)
        o.cut("flags_shape" + tag, z3.And(fe >= 1, fe < 16, (fe < 8) == is_leap(y.e)))
    else:
        o.cut("flags_shape" + tag, z3.And(fe >= 1, fe < 16, (fe < 8) == is_leap(y.e)), splits=[y.e % 400 == a for a in range(400)])
    date = Agg("struct", "NaiveDate", [IntV(y.e * 8192 + d.e * 16 + fe, "i32")])
    yr = o.call("NaiveDate::year", o.ref(date), name="year" + tag)
    od = o.call("NaiveDate::ordinal", o.ref(date), name="ordinal" + tag)
    o.cut("year_accessor" + tag, yr.e == y.e)
    o.cut("ordinal_accessor" + tag, od.e == d.e)
    return y, d, date


def ghost_from_ordinal_and_flags(ex, st, args):
    """real from_ordinal_and_flags, result decorated with ghost fields (year, ordinal) = the arguments it packed"""
    st2, v = ex.exec_real("NaiveDate::from_ordinal_and_flags", st, args)
    if v is not None and 1 in v.payload:
        d = v.payload[1][0]
        v = EnumV(v.name, v.disc, {1: [Agg("struct", "NaiveDate", [d.fields[0], IntV(args[0].e, "i32"), IntV(args[1].e, "u32")])]})
    return st2, v


def ghost_from_yof(ex, st, args):
    st2, d = ex.exec_real("NaiveDate::from_yof", st, args)
    yof = args[0].e
    return st2, Agg("struct", "NaiveDate", [d.fields[0], IntV(yof / 8192, "i32"), IntV((yof / 16) % 512, "u32")])


def use_ghosts(o):
    o.summarize("naive::date::from_ordinal_and_flags", ghost_from_ordinal_and_flags)
    o.summarize("naive::date::from_yof", ghost_from_yof)


def decode(o, date, tag):
    yof = date.fields[0].e
    Y, O, F = z3.Int("Y" + tag), z3.Int("O" + tag), z3.Int("F" + tag)
    o.require(z3.And(yof == Y * 8192 + O * 16 + F, F >= 0, F < 16, O >= 0, O < 512))
    return Y, O


def td_input(o, tag):
    s = o.input("s" + tag, "i64")
    n = o.input("n" + tag, "i32")
    o.require(z3.And(n.e >= 0, n.e < G, s.e * G + n.e >= MINV, s.e * G + n.e <= MAXV))
    return Agg("struct", "TimeDelta", [s, n]), s.e * G + n.e


def tdiv(v, u):
    return z3.If(v >= 0, v / u, -((-v) / u))


@obligation(prop="C03", tier="thorough", timeout=1500, probe="date_add_days",
            desc="NaiveDate::add_days(k) (the kernel behind checked_add_days/sub_days/checked_add_signed): Some exactly when daynumber+k is the day number of a representable date, and then the result is the valid date with exactly that day number (same-year fast path and 400-year-cycle path)",
            bounds="all dates x all i32 day counts; cycle kernels via their proved contracts")
def c03_m_add_days(o):
    c01.use_flags_contract(o)
    c01.use_cycle_contracts(o)
    c01.periodicity(o)
    y, d, date = date_input(o, "")
    k = o.input("k", "i32")
    use_ghosts(o)
    r = o.call("NaiveDate::add_days", date, k, name="add_days")
    some = opt_is_some(r)
    res = opt_payload(r)
    Y, O = res.fields[1].e, res.fields[2].e      # ghost fields: the (year, ordinal) the constructor packed
    yofr = res.fields[0].e
    o.flat = [z3.If(some, 1, 0), z3.If(some, Y, 0), z3.If(some, O, 0)]
    o.no_panic()
    # (the ghost fields equal the packed fields by M:c01_m_from_ordinal_and_flags)
    base = dayno(y.e, d.e)
    tgt = base + k.e
    o.reachable("fast_path", z3.And(some, Y == y.e, k.e != 0))
    o.reachable("other_year", z3.And(some, Y != y.e))
    o.reachable("none", z3.Not(some))
    c01.cycle_lemmas(o)
    e0 = y.e / 400
    r0 = y.e - 400 * e0
    o.use_lemma("dayno_periodic", e0, r0, d.e)
    o.use_lemma("dayno_periodic", e0, r0, d.e + k.e)
    o.use_lemma("leap_periodic", e0, r0)
    o.use_lemma("cyc_bounds", r0, d.e)
    o.use_lemma("cyc_bounds", r0, d.e + k.e)
    er = (tgt + 365) / 146097
    fast = z3.And(d.e + k.e >= 1, d.e + k.e <= z3.If(is_leap(y.e), 366, 365))
    o.cut("fast_path_result", z3.Implies(fast, z3.And(some, Y == y.e, O == d.e + k.e)))
    # the cycle path, step by step (each step is proved, then available to the next)
    cyc0 = c01.cyc(r0, d.e)
    cd = (cyc0 + k.e) / 146097
    o.cut("target_in_cycle_terms", tgt + 365 == 146097 * e0 + cyc0 + k.e)
    o.cut("era_formula", er == e0 + cd)
    o.cut("result_year_in_its_era", z3.Implies(z3.And(some, z3.Not(fast)), z3.And(Y - 400 * (e0 + cd) >= 0, Y - 400 * (e0 + cd) <= 399)))
    o.cut("year_in_era", z3.Implies(some, z3.And(Y - 400 * er >= 0, Y - 400 * er <= 399)), splits=[fast, z3.Not(fast)])
    rr = Y - 400 * er
    o.cut("result_in_cycle", z3.Implies(z3.And(some, z3.Not(fast)), c01.cyc(rr, O) == cyc0 + k.e - 146097 * cd))
    o.cut("result_ordinal_valid", z3.Implies(z3.And(some, z3.Not(fast)), z3.And(O >= 1, O <= z3.If(is_leap(rr), 366, 365))))
    o.use_lemma("cyc_bounds", rr, O)
    o.use_lemma("leap_periodic", er, rr)
    o.use_lemma("dayno_periodic", er, Y - 400 * er, O)
    o.claim("exact", z3.Implies(some, z3.And(dayno(Y, O) == tgt, Y >= MINY, Y <= MAXY, O >= 1, O <= z3.If(is_leap(Y), 366, 365))))
    o.claim("some_implies_in_range", z3.Implies(some, z3.And(tgt >= LO, tgt <= HI)))
    o.claim("in_range_implies_some", z3.Implies(z3.And(tgt >= LO, tgt <= HI), some))


def sum_add_days(ex, st, args):
    """contract of NaiveDate::add_days proved by M:c03_m_add_days"""
    d = ex.load(st, args[0])
    k = args[1].e
    yof = d.fields[0].e
    Y0, O0, F0 = ex.fresh("Y0"), ex.fresh("O0"), ex.fresh("F0")
    ex.side.append(z3.And(yof == Y0 * 8192 + O0 * 16 + F0, F0 >= 0, F0 < 16, O0 >= 0, O0 < 512))
    tgt = dayno(Y0, O0) + k
    ok = z3.And(tgt >= LO, tgt <= HI)
    Y, O, F, nyof = ex.fresh("Y1"), ex.fresh("O1"), ex.fresh("F1"), ex.fresh("yof1")
    ex.side.append(z3.Implies(ok, z3.And(nyof == Y * 8192 + O * 16 + F, F >= 1, F < 16, O >= 1, O <= z3.If(is_leap(Y), 366, 365),
                                         Y >= MINY, Y <= MAXY, dayno(Y, O) == tgt)))
    return st, EnumV("Option", z3.If(ok, 1, 0), {1: [Agg("struct", "NaiveDate", [IntV(nyof, "i32")])]})


@obligation(prop="C03", tier="quick", timeout=600, probe="date_days_u64",
            desc="checked_add_days / checked_sub_days (u64 counts): exact day shift or None; counts above i32::MAX are refused (never truncated)",
            bounds="all dates x all u64 counts; add_days via its proved contract")
def c03_m_days_u64(o):
    o.summarize("naive::date::add_days", sum_add_days)
    y, d, date = date_input(o, "")
    n = o.input("n", "u64")
    days = Agg("struct", "Days", [n])
    ra = o.call("NaiveDate::checked_add_days", date, days, name="checked_add_days")
    rs = o.call("NaiveDate::checked_sub_days", date, days, name="checked_sub_days")
    Ya, Oa = decode(o, opt_payload(ra), "a")
    Ys, Os = decode(o, opt_payload(rs), "s")
    o.flat = [z3.If(opt_is_some(ra), 1, 0), z3.If(opt_is_some(ra), Ya, 0), z3.If(opt_is_some(ra), Oa, 0),
              z3.If(opt_is_some(rs), 1, 0), z3.If(opt_is_some(rs), Ys, 0), z3.If(opt_is_some(rs), Os, 0)]
    o.no_panic()
    base = dayno(y.e, d.e)
    o.reachable("huge", n.e > 4294967296)
    o.reachable("add_some", opt_is_some(ra))
    o.claim("add_days_u64", z3.And(opt_is_some(ra) == z3.And(n.e <= 2147483647, base + n.e <= HI),
                                   z3.Implies(opt_is_some(ra), z3.And(dayno(Ya, Oa) == base + n.e, Oa >= 1, Oa <= z3.If(is_leap(Ya), 366, 365)))))
    o.claim("sub_days_u64", z3.And(opt_is_some(rs) == z3.And(n.e <= 2147483647, base - n.e >= LO),
                                   z3.Implies(opt_is_some(rs), z3.And(dayno(Ys, Os) == base - n.e, Os >= 1, Os <= z3.If(is_leap(Ys), 366, 365)))))


@obligation(prop="C03", tier="thorough", timeout=900, probe="date_add_signed",
            desc="NaiveDate::checked_add_signed / checked_sub_signed move the date by exactly the duration's whole days truncated toward zero, or return None exactly when that day is not representable; NaiveDate::signed_duration_since is exactly (daynumber difference) days, so b + (a - b) == a",
            bounds="all dates x all in-range TimeDeltas; all pairs of dates; add_days via its proved contract")
def c03_m_date_signed(o):
    c01.use_cycle_contracts(o)
    c01.periodicity(o)
    o.summarize("naive::date::add_days", sum_add_days)
    y, d, date = date_input(o, "")
    y2, d2, date2 = date_input(o, "b")
    td, v = td_input(o, "d")
    ra = o.call("NaiveDate::checked_add_signed", date, td, name="add")
    rs = o.call("NaiveDate::checked_sub_signed", date, td, name="sub")
    diff = o.call("NaiveDate::signed_duration_since", date, date2, name="diff")
    Ya, Oa = decode(o, opt_payload(ra), "a")
    Ys, Os = decode(o, opt_payload(rs), "s")
    o.flat = [z3.If(opt_is_some(ra), 1, 0), z3.If(opt_is_some(ra), Ya, 0), z3.If(opt_is_some(ra), Oa, 0),
              z3.If(opt_is_some(rs), 1, 0), z3.If(opt_is_some(rs), Ys, 0), z3.If(opt_is_some(rs), Os, 0),
              diff.fields[0].e, diff.fields[1].e]
    o.no_panic()
    base = dayno(y.e, d.e)
    days = tdiv(v, DAY * G)
    o.reachable("neg_fraction_of_day", z3.And(v < 0, v % (DAY * G) != 0, opt_is_some(ra)))
    o.reachable("none", z3.Not(opt_is_some(ra)))
    for tag, e_, yy, dd in (("", y.e / 400, y.e, d.e), ("b", y2.e / 400, y2.e, d2.e)):
        o.use_lemma("dayno_periodic", e_, yy - 400 * e_, dd)
    o.claim("add_some_iff", opt_is_some(ra) == z3.And(base + days >= LO, base + days <= HI))
    o.claim("add_exact", z3.Implies(opt_is_some(ra), z3.And(dayno(Ya, Oa) == base + days, Oa >= 1, Oa <= z3.If(is_leap(Ya), 366, 365))))
    o.claim("sub_some_iff", opt_is_some(rs) == z3.And(base - days >= LO, base - days <= HI))
    o.claim("sub_exact", z3.Implies(opt_is_some(rs), z3.And(dayno(Ys, Os) == base - days, Os >= 1, Os <= z3.If(is_leap(Ys), 366, 365))))
    o.claim("difference_exact", diff.fields[0].e * G + diff.fields[1].e == (base - dayno(y2.e, d2.e)) * DAY * G)
