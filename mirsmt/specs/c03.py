"""C03 — adding / subtracting elapsed time is exact or refused (full domains).

The 400-year-cycle kernels (cycle_to_yo / yo_to_cycle) are used through the contracts proved by M:c01_m_cycle_to_yo and
M:c01_m_yo_to_cycle; NaiveDate::add_days, signed_duration_since, checked_add_signed etc. are executed from the MIR."""
import os
import importlib.util
import z3
from api import obligation, opt_is_some, opt_payload
from symex import IntV, Agg, EnumV

_p = os.path.join(os.path.dirname(__file__), "c01.py")
_spec = importlib.util.spec_from_file_location("c01_shared_for_c03", _p)
# import helpers from c01 without re-registering its obligations
import api as _api
_saved = list(_api.REGISTRY)
c01 = importlib.util.module_from_spec(_spec)
_spec.loader.exec_module(c01)
_api.REGISTRY[:] = _saved

G = 1000000000
DAY = 86400
MINY, MAXY = c01.MINY, c01.MAXY
dayno, is_leap = c01.dayno, c01.is_leap
LO, HI = -95746129, 95745399
I64MAX = (1 << 63) - 1
MAXV = I64MAX * 1000000
MINV = -MAXV


def date_input(o, tag):
    """a symbolic NaiveDate satisfying the representation invariant (year in range, 1 <= ordinal <= 365/366, flags =
    YearFlags::from_year(year) computed by the real table lookup).  The Kani harness c01_yo_valid_iff shows that the
    constructors produce exactly these values."""
    y = o.input("y" + tag, "i32")
    d = o.input("o" + tag, "u32")
    o.require(z3.And(y.e >= MINY, y.e <= MAXY, d.e >= 1, d.e <= z3.If(is_leap(y.e), 366, 365)))
    fl = o.call("YearFlags::from_year", y, name="flags" + tag)
    fe = z3.Int("flags" + tag)           # a name for the table value (definitional equality, not an assumption)
    o.require(fe == fl.fields[0].e)
    if "naive::internals::from_year_mod_400" in o.ex.summaries:
        c01.cycle_lemmas(o) if not getattr(o, "lemmas", {}).get("leap_periodic") else None
        o.use_lemma("leap_periodic", y.e / 400, y.e % 400)
        o.cut("flags_shape" + tag, z3.And(fe >= 1, fe < 16, (fe < 8) == is_leap(y.e)))
    else:
        o.cut("flags_shape" + tag, z3.And(fe >= 1, fe < 16, (fe < 8) == is_leap(y.e)), splits=[y.e % 400 == a for a in range(400)])
    # field 0 is the packed word the code sees; fields 1, 2 are ghost copies of (year, ordinal) for the contracts
    date = Agg("struct", "NaiveDate", [IntV(y.e * 8192 + d.e * 16 + fe, "i32"), y, d])
    yr = o.call("NaiveDate::year", o.ref(date), name="year" + tag)
    od = o.call("NaiveDate::ordinal", o.ref(date), name="ordinal" + tag)
    o.cut("year_accessor" + tag, yr.e == y.e)
    o.cut("ordinal_accessor" + tag, od.e == d.e)
    return y, d, date


def ghost_from_ordinal_and_flags(ex, st, args):
    """real from_ordinal_and_flags, result decorated with ghost fields (year, ordinal) = the arguments it packed"""
    st2, v = ex.exec_real("NaiveDate::from_ordinal_and_flags", st, args)
    if v is not None and 1 in v.payload:
        d = v.payload[1][0]
        v = EnumV(v.name, v.disc, {1: [Agg("struct", "NaiveDate", [d.fields[0], IntV(args[0].e, "i32"), IntV(args[1].e, "u32")])]})
    return st2, v


def contract_from_ordinal_and_flags(ex, st, args):
    """contract of NaiveDate::from_ordinal_and_flags proved by M:c01_m_from_ordinal_and_flags (flags: 4 bits, weekday part
    non-zero): Some exactly for year in range and 1 <= ordinal <= 365 (366 when the leap bit is clear); packed word =
    year*8192 + ordinal*16 + flags. The result carries the ghost (year, ordinal)."""
    yr, od, fl = args[0].e, args[1].e, args[2].fields[0].e
    pre = z3.And(fl >= 1, fl <= 15, fl % 8 != 0)
    ex.panics.append((z3.And(st.pc, z3.Not(pre)), "from_ordinal_and_flags called with flags outside its contract", "from_ordinal_and_flags"))
    ok = z3.And(yr >= MINY, yr <= MAXY, od >= 1, od <= z3.If(fl < 8, 366, 365))
    date = Agg("struct", "NaiveDate", [IntV(yr * 8192 + od * 16 + fl, "i32"), IntV(yr, "i32"), IntV(od, "u32")])
    return st, EnumV("Option", z3.If(ok, 1, 0), {1: [date]})


def ghost_from_yof(ex, st, args):
    st2, d = ex.exec_real("NaiveDate::from_yof", st, args)
    yof = args[0].e
    return st2, Agg("struct", "NaiveDate", [d.fields[0], IntV(yof / 8192, "i32"), IntV((yof / 16) % 512, "u32")])


def use_ghosts(o):
    o.summarize("naive::date::from_ordinal_and_flags", contract_from_ordinal_and_flags)
    o.summarize("naive::date::from_yof", ghost_from_yof)


def decode(o, date, tag):
    if len(date.fields) == 3:      # ghost (year, ordinal) attached by a contract
        return date.fields[1].e, date.fields[2].e
    yof = date.fields[0].e
    Y, O, F = z3.Int("Y" + tag), z3.Int("O" + tag), z3.Int("F" + tag)
    o.require(z3.And(yof == Y * 8192 + O * 16 + F, F >= 0, F < 16, O >= 0, O < 512))
    return Y, O


def td_input(o, tag):
    s = o.input("s" + tag, "i64")
    n = o.input("n" + tag, "i32")
    o.require(z3.And(n.e >= 0, n.e < G, s.e * G + n.e >= MINV, s.e * G + n.e <= MAXV))
    return Agg("struct", "TimeDelta", [s, n]), s.e * G + n.e


def tdiv(v, u):
    return z3.If(v >= 0, v / u, -((-v) / u))


@obligation(prop="C03", tier="quick", timeout=900, probe="date_add_days",
            desc="NaiveDate::add_days(k) (the kernel behind checked_add_days/sub_days/checked_add_signed): Some exactly when daynumber+k is the day number of a representable date, and then the result is the valid date with exactly that day number (same-year fast path and 400-year-cycle path)",
            bounds="all dates x all i32 day counts; cycle kernels via their proved contracts")
def c03_m_add_days(o):
    c01.use_flags_contract(o)
    c01.use_cycle_contracts(o)
    c01.periodicity(o)
    c01.cycle_lemmas(o)
    y, d, date = date_input(o, "")
    k = o.input("k", "i32")
    use_ghosts(o)
    base = dayno(y.e, d.e)
    tgt = base + k.e
    fast = z3.And(d.e + k.e >= 1, d.e + k.e <= z3.If(is_leap(y.e), 366, 365))
    # --- ghost replay of the cycle path's own intermediate terms (pure calls: identical arguments give identical terms).
    #     Done before the real call so that the facts about these terms are also available on the real call's panic edges.
    yr = o.call("NaiveDate::year", o.ref(date), name="year_again", ghost=True)
    dm = o.call("div_mod_floor", yr, IntV(400, "i32"), name="dm400", ghost=True)
    e0c, r0c = dm.fields[0].e, dm.fields[1].e
    o.cut("year_split", z3.And(y.e == 400 * e0c + r0c, r0c >= 0, r0c <= 399))
    od = o.call("NaiveDate::ordinal", o.ref(date), name="ord_again", ghost=True)
    c0 = o.call("yo_to_cycle", o.cast(dm.fields[1], "u32"), od, name="c0", ghost=True)
    o.use_lemma("dayno_periodic", e0c, r0c, d.e)
    o.use_lemma("dayno_periodic", e0c, r0c, d.e + k.e)
    o.use_lemma("leap_periodic", e0c, r0c)
    o.use_lemma("cyc_bounds", r0c, d.e)
    o.use_lemma("cyc_bounds", r0c, d.e + k.e)
    o.cut("cycle0", z3.And(c0.e == c01.cyc(r0c, d.e), c0.e >= 0, c0.e <= 146096))
    o.cut("target_in_cycle_terms", tgt + 365 == 146097 * e0c + c0.e + k.e)
    c1 = o.call("core::num::<impl i32>::checked_add", o.cast(c0, "i32"), k, name="c1", ghost=True)
    inrange_c1 = opt_is_some(c1)
    c1v = opt_payload(c1)
    dm2 = o.call("div_mod_floor", c1v, IntV(146097, "i32"), name="dm146097", ghost=True, when=inrange_c1)
    cdc, cc = dm2.fields[0].e, dm2.fields[1].e
    yo = o.call("cycle_to_yo", o.cast(dm2.fields[1], "u32"), name="yo", ghost=True, when=inrange_c1)
    ymp, op_ = yo.fields[0].e, yo.fields[1].e
    o.cut("cycle_split", z3.Implies(inrange_c1, z3.And(c0.e + k.e == 146097 * cdc + cc, cc >= 0, cc <= 146096)))
    o.cut("cycle_to_yo_contract", z3.Implies(inrange_c1, z3.And(ymp >= 0, ymp <= 399, op_ >= 1, op_ <= z3.If(is_leap(ymp), 366, 365), c01.cyc(ymp, op_) == cc)))
    # --- the function under test
    r = o.call("NaiveDate::add_days", date, k, name="add_days")
    some = opt_is_some(r)
    res = opt_payload(r)
    Y, O = res.fields[1].e, res.fields[2].e      # ghost fields: the (year, ordinal) the constructor packed
    # (the ghost fields equal the packed fields by M:c01_m_from_ordinal_and_flags)
    o.flat = [z3.If(some, 1, 0), z3.If(some, Y, 0), z3.If(some, O, 0)]
    o.no_panic()
    o.reachable("fast_path", z3.And(some, Y == y.e, k.e != 0))
    o.reachable("other_year", z3.And(some, Y != y.e))
    o.reachable("none", z3.Not(some))
    o.cut("fast_path_result", z3.Implies(fast, z3.And(some, Y == y.e, O == d.e + k.e)))
    o.cut("result_fields", z3.Implies(z3.And(some, z3.Not(fast)), z3.And(inrange_c1, Y == (e0c + cdc) * 400 + ymp, O == op_)))
    o.cut("none_reasons", z3.Implies(z3.And(z3.Not(some), z3.Not(fast)), z3.Or(z3.Not(inrange_c1), (e0c + cdc) * 400 + ymp < MINY, (e0c + cdc) * 400 + ymp > MAXY)))
    o.use_lemma("dayno_periodic", e0c + cdc, ymp, op_)
    o.use_lemma("leap_periodic", e0c + cdc, ymp)
    Ym, Om = z3.Ints("lemY lemO")
    o.lemma("beyond_max", [Ym, Om], z3.Implies(z3.And(Ym > MAXY, Om >= 1), dayno(Ym, Om) > HI))
    o.lemma("before_min", [Ym, Om], z3.Implies(z3.And(Ym < MINY, Om <= 366), dayno(Ym, Om) < LO))
    o.use_lemma("beyond_max", (e0c + cdc) * 400 + ymp, op_)
    o.use_lemma("before_min", (e0c + cdc) * 400 + ymp, op_)
    sp = [fast, z3.Not(fast)]
    # Stated on the code's own year/ordinal terms of each path; together with the `result_fields` / `fast_path_result`
    # equalities (Y == Yc, O == Oc) this is `dayno(Y, O) == tgt` by substitution of equals.
    Yc = (e0c + cdc) * 400 + ymp
    nf = z3.And(some, z3.Not(fast))
    o.claim("exact_fast_path", z3.Implies(fast, z3.And(some, Y == y.e, O == d.e + k.e, dayno(y.e, d.e + k.e) == tgt)))
    o.claim("exact_cycle_path", z3.Implies(nf, z3.And(Y == Yc, O == op_, dayno(Yc, op_) == tgt, Yc >= MINY, Yc <= MAXY,
                                                     op_ >= 1, op_ <= z3.If(is_leap(Yc), 366, 365))))
    o.claim("some_implies_in_range", z3.Implies(some, z3.And(tgt >= LO, tgt <= HI)), splits=sp)
    o.claim("in_range_implies_some", z3.Implies(z3.And(tgt >= LO, tgt <= HI), some), splits=sp)


def ghost_or_decode(ex, d, tag):
    if len(d.fields) == 3:
        return d.fields[1].e, d.fields[2].e
    yof = d.fields[0].e
    Y0, O0, F0 = ex.fresh("Y" + tag), ex.fresh("O" + tag), ex.fresh("F" + tag)
    ex.side.append(z3.And(yof == Y0 * 8192 + O0 * 16 + F0, F0 >= 0, F0 < 16, O0 >= 0, O0 < 512))
    return Y0, O0


def sum_add_days(ex, st, args):
    """contract of NaiveDate::add_days proved by M:c03_m_add_days"""
    d = ex.load(st, args[0])
    k = args[1].e
    Y0, O0 = ghost_or_decode(ex, d, "0")
    tgt = dayno(Y0, O0) + k
    ok = z3.And(tgt >= LO, tgt <= HI)
    Y, O, F, nyof = ex.fresh("Y1"), ex.fresh("O1"), ex.fresh("F1"), ex.fresh("yof1")
    ex.side.append(z3.Implies(ok, z3.And(nyof == Y * 8192 + O * 16 + F, F >= 1, F < 16, O >= 1, O <= z3.If(is_leap(Y), 366, 365),
                                         Y >= MINY, Y <= MAXY, dayno(Y, O) == tgt)))
    return st, EnumV("Option", z3.If(ok, 1, 0), {1: [Agg("struct", "NaiveDate", [IntV(nyof, "i32")])]})


@obligation(prop="C03", tier="quick", timeout=600, probe="date_days_u64",
            desc="checked_add_days / checked_sub_days (u64 counts): exact day shift or None; counts above i32::MAX are refused (never truncated)",
            bounds="all dates x all u64 counts; add_days via its proved contract")
def c03_m_days_u64(o):
    o.summarize("naive::date::add_days", sum_add_days)
    y, d, date = date_input(o, "")
    n = o.input("n", "u64")
    days = Agg("struct", "Days", [n])
    ra = o.call("NaiveDate::checked_add_days", date, days, name="checked_add_days")
    rs = o.call("NaiveDate::checked_sub_days", date, days, name="checked_sub_days")
    Ya, Oa = decode(o, opt_payload(ra), "a")
    Ys, Os = decode(o, opt_payload(rs), "s")
    o.flat = [z3.If(opt_is_some(ra), 1, 0), z3.If(opt_is_some(ra), Ya, 0), z3.If(opt_is_some(ra), Oa, 0),
              z3.If(opt_is_some(rs), 1, 0), z3.If(opt_is_some(rs), Ys, 0), z3.If(opt_is_some(rs), Os, 0)]
    o.no_panic()
    base = dayno(y.e, d.e)
    o.reachable("huge", n.e > 4294967296)
    o.reachable("add_some", opt_is_some(ra))
    o.claim("add_days_u64", z3.And(opt_is_some(ra) == z3.And(n.e <= 2147483647, base + n.e <= HI),
                                   z3.Implies(opt_is_some(ra), z3.And(dayno(Ya, Oa) == base + n.e, Oa >= 1, Oa <= z3.If(is_leap(Ya), 366, 365)))))
    o.claim("sub_days_u64", z3.And(opt_is_some(rs) == z3.And(n.e <= 2147483647, base - n.e >= LO),
                                   z3.Implies(opt_is_some(rs), z3.And(dayno(Ys, Os) == base - n.e, Os >= 1, Os <= z3.If(is_leap(Ys), 366, 365)))))


@obligation(prop="C03", tier="quick", timeout=900, probe="date_add_signed",
            desc="NaiveDate::checked_add_signed / checked_sub_signed move the date by exactly the duration's whole days truncated toward zero, or return None exactly when that day is not representable; NaiveDate::signed_duration_since is exactly (daynumber difference) days, so b + (a - b) == a",
            bounds="all dates x all in-range TimeDeltas; all pairs of dates; add_days via its proved contract")
def c03_m_date_signed(o):
    c01.use_cycle_contracts(o)
    c01.periodicity(o)
    o.summarize("naive::date::add_days", sum_add_days)
    y, d, date = date_input(o, "")
    y2, d2, date2 = date_input(o, "b")
    td, v = td_input(o, "d")
    ra = o.call("NaiveDate::checked_add_signed", date, td, name="add")
    rs = o.call("NaiveDate::checked_sub_signed", date, td, name="sub")
    Ya, Oa = decode(o, opt_payload(ra), "a")
    Ys, Os = decode(o, opt_payload(rs), "s")
    o.flat = [z3.If(opt_is_some(ra), 1, 0), z3.If(opt_is_some(ra), Ya, 0), z3.If(opt_is_some(ra), Oa, 0),
              z3.If(opt_is_some(rs), 1, 0), z3.If(opt_is_some(rs), Ys, 0), z3.If(opt_is_some(rs), Os, 0)]
    o.no_panic()
    base = dayno(y.e, d.e)
    days = tdiv(v, DAY * G)
    nd = o.call("TimeDelta::num_days", o.ref(td), name="num_days")   # the code's own term for the whole days
    o.cut("num_days_truncates", nd.e == days, splits=[v >= 0, v < 0])
    o.reachable("neg_fraction_of_day", z3.And(v < 0, v % (DAY * G) != 0, opt_is_some(ra)))
    o.reachable("none", z3.Not(opt_is_some(ra)))
    c01.cycle_lemmas(o)
    for tag, e_, yy, dd in (("", y.e / 400, y.e, d.e), ("b", y2.e / 400, y2.e, d2.e)):
        o.cut("year_split" + tag, yy == 400 * e_ + yy % 400)
        o.use_lemma("dayno_periodic", e_, yy % 400, dd)
        o.use_lemma("cyc_bounds", yy % 400, dd)
        o.use_lemma("leap_periodic", e_, yy % 400)
    o.claim("add_some_iff", opt_is_some(ra) == z3.And(base + days >= LO, base + days <= HI))
    o.claim("add_exact", z3.Implies(opt_is_some(ra), z3.And(dayno(Ya, Oa) == base + days, Oa >= 1, Oa <= z3.If(is_leap(Ya), 366, 365))))
    o.claim("sub_some_iff", opt_is_some(rs) == z3.And(base - days >= LO, base - days <= HI))
    o.claim("sub_exact", z3.Implies(opt_is_some(rs), z3.And(dayno(Ys, Os) == base - days, Os >= 1, Os <= z3.If(is_leap(Ys), 366, 365))))


def sum_weekday(ex, st, args):
    """contract of NaiveDate::weekday proved by M:c01_m_weekday"""
    d = ex.load(st, args[0])
    Y, O = ghost_or_decode(ex, d, "w")
    return st, EnumV("Weekday", (dayno(Y, O) - 1) % 7)


@obligation(prop="C08", tier="quick", timeout=600, probe="week_bounds",
            desc="NaiveWeek::checked_first_day / checked_last_day: the first day is the date minus ((weekday - start) mod 7) days, the last day six days after the first; each is None exactly when that day is not representable; hence the first day falls on the chosen start weekday at most six days before the date and the week spans seven days",
            bounds="all dates x all 7 start weekdays; add_days and weekday through their proved contracts (M:c03_m_add_days, M:c01_m_weekday)")
def c08_m_week_bounds(o):
    o.summarize("naive::date::add_days", sum_add_days)
    o.summarize("naive::date::weekday", sum_weekday)
    y, d, date = date_input(o, "")
    st = o.input("start", "u8")
    o.require(st.e <= 6)
    week = Agg("struct", "NaiveWeek", [date, EnumV("Weekday", st.e)])
    f = o.call("NaiveWeek::checked_first_day", o.ref(week), name="first")
    l = o.call("NaiveWeek::checked_last_day", o.ref(week), name="last")
    Yf, Of = decode(o, opt_payload(f), "f")
    Yl, Ol = decode(o, opt_payload(l), "l")
    o.flat = [z3.If(opt_is_some(f), 1, 0), z3.If(opt_is_some(f), Yf, 0), z3.If(opt_is_some(f), Of, 0),
              z3.If(opt_is_some(l), 1, 0), z3.If(opt_is_some(l), Yl, 0), z3.If(opt_is_some(l), Ol, 0)]
    o.no_panic()
    base = dayno(y.e, d.e)
    back = ((base - 1) % 7 - st.e) % 7
    o.reachable("first_none", z3.Not(opt_is_some(f)))
    o.reachable("last_none", z3.Not(opt_is_some(l)))
    o.reachable("back6", z3.And(back == 6, opt_is_some(f)))
    o.claim("first_day", z3.And(opt_is_some(f) == (base - back >= LO), z3.Implies(opt_is_some(f), dayno(Yf, Of) == base - back)))
    o.claim("last_day", z3.And(opt_is_some(l) == (base - back + 6 <= HI), z3.Implies(opt_is_some(l), dayno(Yl, Ol) == base - back + 6)))
    # (that the first day falls on the chosen weekday follows arithmetically: (base - back - 1) mod 7 == start)


def _date_add_signed_contract(sign):
    def f(ex, st, args):
        """contract of NaiveDate::checked_add_signed / checked_sub_signed proved by M:c03_m_date_signed"""
        d = ex.load(st, args[0])
        td = args[1]
        v = td.fields[0].e * G + td.fields[1].e
        days = tdiv(v, DAY * G)
        Y0, O0 = ghost_or_decode(ex, d, "s")
        tgt = dayno(Y0, O0) + sign * days
        ok = z3.And(tgt >= LO, tgt <= HI)
        Y, O, F, nyof = ex.fresh("Y2"), ex.fresh("O2"), ex.fresh("F2"), ex.fresh("yof2")
        ex.side.append(z3.Implies(ok, z3.And(nyof == Y * 8192 + O * 16 + F, F >= 1, F < 16, O >= 1, O <= z3.If(is_leap(Y), 366, 365),
                                             Y >= MINY, Y <= MAXY, dayno(Y, O) == tgt)))
        return st, EnumV("Option", z3.If(ok, 1, 0), {1: [Agg("struct", "NaiveDate", [IntV(nyof, "i32"), IntV(Y, "i32"), IntV(O, "u32")])]})
    return f


def sum_date_diff(ex, st, args):
    """contract of NaiveDate::signed_duration_since proved by M:c03_m_date_signed"""
    a, b = ex.load(st, args[0]), ex.load(st, args[1])
    Ya, Oa = ghost_or_decode(ex, a, "da")
    Yb, Ob = ghost_or_decode(ex, b, "db")
    days = dayno(Ya, Oa) - dayno(Yb, Ob)
    return st, Agg("struct", "TimeDelta", [IntV(days * DAY, "i64"), IntV(0, "i32")])


import importlib.util as _ilu
_saved2 = list(_api.REGISTRY)
_s7 = _ilu.spec_from_file_location("c07_shared_for_c03", os.path.join(os.path.dirname(__file__), "c07.py"))
c07 = _ilu.module_from_spec(_s7)
_s7.loader.exec_module(c07)
_api.REGISTRY[:] = _saved2


@obligation(prop="C03", tier="quick", timeout=900, probe="datetime_add",
            desc="NaiveDateTime::checked_add_signed / checked_sub_signed: the time of day follows the (leap-aware) time rules and the whole-day carry moves the date by exactly that many days; the result is None exactly when that date is not representable. For a non-leap operand this is: result instant == instant +/- duration, exactly, in nanoseconds",
            bounds="all dates x all times of day (incl. leap representations) x all in-range TimeDeltas; NaiveDate::checked_add_signed / checked_sub_signed through the contract proved by M:c03_m_date_signed; the time arithmetic is executed from the MIR")
def c03_m_datetime_add(o):
    o.summarize("naive::date::checked_add_signed", _date_add_signed_contract(1))
    o.summarize("naive::date::checked_sub_signed", _date_add_signed_contract(-1))
    y, d, date = date_input(o, "")
    t, ts, tf = c07.time_input(o, "")
    td, v = td_input(o, "d")
    dt = Agg("struct", "NaiveDateTime", [date, t])
    ra = o.call("NaiveDateTime::checked_add_signed", dt, td, name="add")
    rs = o.call("NaiveDateTime::checked_sub_signed", dt, td, name="sub")
    o.no_panic()
    base = dayno(y.e, d.e)
    flat = []
    for nm, r, delta in (("add", ra, v), ("sub", rs, -v)):
        some = opt_is_some(r)
        res = opt_payload(r)
        Yr, Or = decode(o, res.fields[0], nm)
        rs_, rf_ = res.fields[1].fields[0].e, res.fields[1].fields[1].e
        flat += [z3.If(some, 1, 0), z3.If(some, Yr, 0), z3.If(some, Or, 0), z3.If(some, rs_, 0), z3.If(some, rf_, 0)]
        es, ef, ec = c07.ref_add(ts, tf, delta)
        day = base + ec / DAY
        o.claim(nm + "_some_iff_representable", some == z3.And(day >= LO, day <= HI))
        o.claim(nm + "_time_and_date", z3.Implies(some, z3.And(rs_ == es, rf_ == ef, dayno(Yr, Or) == day, Or >= 1, Or <= z3.If(is_leap(Yr), 366, 365))))
        N = (base * DAY + ts) * G + tf
        o.claim(nm + "_exact_instant_without_leap", z3.Implies(z3.And(some, tf < G),
                                                             z3.And((dayno(Yr, Or) * DAY + rs_) * G + rf_ == N + delta, rf_ < G)))
    o.flat = flat
    o.reachable("add_none", z3.Not(opt_is_some(ra)))
    o.reachable("leap_operand", z3.And(tf >= G, opt_is_some(ra)))
    o.reachable("negative_carry", z3.And(opt_is_some(ra), dayno(decode(o, opt_payload(ra).fields[0], "add")[0], decode(o, opt_payload(ra).fields[0], "add")[1]) < base))


@obligation(prop="C03", tier="quick", timeout=900, probe="datetime_diff",
            desc="NaiveDateTime::signed_duration_since is the exact signed distance: (day-number difference) days plus the (leap-aware) time-of-day difference; for non-leap operands b + (a - b) == a in nanoseconds and the sign follows the order of the two values; never panics",
            bounds="all pairs of dates x all pairs of times of day; NaiveDate::signed_duration_since through the contract proved by M:c03_m_date_signed")
def c03_m_datetime_diff(o):
    o.summarize("naive::date::signed_duration_since", sum_date_diff)
    ya, da, datea = date_input(o, "")
    yb, db, dateb = date_input(o, "b")
    ta, tsa, tfa = c07.time_input(o, "a")
    tb, tsb, tfb = c07.time_input(o, "b")
    a = Agg("struct", "NaiveDateTime", [datea, ta])
    b = Agg("struct", "NaiveDateTime", [dateb, tb])
    r = o.call("NaiveDateTime::signed_duration_since", a, b, name="diff")
    adj = z3.And(r.fields[0].e < 0, r.fields[1].e > 0)
    o.flat = [z3.If(adj, r.fields[0].e + 1, r.fields[0].e), z3.If(adj, r.fields[1].e - G, r.fields[1].e)]
    o.no_panic()
    val = r.fields[0].e * G + r.fields[1].e
    days = dayno(ya.e, da.e) - dayno(yb.e, db.e)
    o.reachable("negative", val < 0)
    o.claim("exact_distance", val == days * DAY * G + c07.ref_pos_pair(tsa, tfa, tsb, tfb))
    Na = (dayno(ya.e, da.e) * DAY + tsa) * G + tfa
    Nb = (dayno(yb.e, db.e) * DAY + tsb) * G + tfb
    o.claim("plain_difference_without_leap", z3.Implies(z3.And(tfa < G, tfb < G), val == Na - Nb))
    o.claim("well_formed", z3.And(r.fields[1].e >= 0, r.fields[1].e < G))


@obligation(prop="C03", tier="quick", timeout=900, probe="date_diff",
            desc="NaiveDate::signed_duration_since(a, b) is exactly (daynumber(a) - daynumber(b)) days as a TimeDelta (so b + (a - b) == a and the sign follows the order); never panics (the `expect` on try_days is unreachable)",
            bounds="all pairs of dates; yo_to_cycle through its proved contract")
def c03_m_date_diff(o):
    c01.use_cycle_contracts(o)
    c01.periodicity(o)
    c01.cycle_lemmas(o)
    y, d, date = date_input(o, "")
    y2, d2, date2 = date_input(o, "b")
    # the code's own intermediate terms (pure calls on identical arguments give identical terms)
    parts = []
    for tag, dt_, yy, dd in (("", date, y, d), ("b", date2, y2, d2)):
        yr = o.call("NaiveDate::year", o.ref(dt_), name="yr" + tag)
        dm = o.call("div_mod_floor", yr, IntV(400, "i32"), name="dm" + tag)
        od = o.call("NaiveDate::ordinal", o.ref(dt_), name="od" + tag)
        c = o.call("yo_to_cycle", o.cast(dm.fields[1], "u32"), od, name="cyc" + tag)
        e_, r_ = dm.fields[0].e, dm.fields[1].e
        o.cut("year_split" + tag, z3.And(yy.e == 400 * e_ + r_, r_ >= 0, r_ <= 399))
        o.use_lemma("dayno_periodic", e_, r_, dd.e)
        o.use_lemma("cyc_bounds", r_, dd.e)
        o.use_lemma("leap_periodic", e_, r_)
        o.cut("cycle" + tag, z3.And(c.e == c01.cyc(r_, dd.e), dayno(yy.e, dd.e) + 365 == 146097 * e_ + c.e))
        parts.append((e_, c.e))
    diff = o.call("NaiveDate::signed_duration_since", date, date2, name="diff")
    o.flat = [diff.fields[0].e, diff.fields[1].e]
    o.no_panic()
    o.reachable("negative", diff.fields[0].e < 0)
    o.claim("difference_exact", z3.And(diff.fields[0].e == (dayno(y.e, d.e) - dayno(y2.e, d2.e)) * DAY, diff.fields[1].e == 0))


def _iter_cell(o, name, value):
    """a mutable iterator object living in a specification-owned memory cell; returns a `&mut` to it"""
    from symex import RefV
    o.state.mem[(0, name)] = value
    return RefV(0, ("local", name))


@obligation(prop="C03", tier="extra", timeout=3600, probe="date_iters",
            desc="iter_days / iter_weeks: next() yields the current date and advances by exactly one day / seven days, returning None (and staying put) when that step would leave the range; next_back() mirrors it towards MIN; size_hint is exactly the number of remaining forward steps, (MAX - current) days resp. whole weeks, for both bounds",
            bounds="all dates as the iterator's current value; one step from any state (the iterators have no other state, so this covers every iteration history); add_days and the date difference through their proved contracts")
def c03_m_iterators(o):
    o.summarize("naive::date::add_days", sum_add_days)
    o.summarize("naive::date::signed_duration_since", sum_date_diff)
    o.summarize("naive::date::from_yof", ghost_from_yof)
    o.summarize("naive::date::from_ordinal_and_flags", contract_from_ordinal_and_flags)
    c01.use_flags_contract(o)
    y, d, date = date_input(o, "")
    base = dayno(y.e, d.e)
    flat = []
    for kind, step, path in (("days", 1, "NaiveDateDaysIterator"), ("weeks", 7, "NaiveDateWeeksIterator")):
        for direction, meth, sgn in (("fwd", "next", 1), ("back", "next_back", -1)):
            tag = f"{kind}_{direction}"
            cell = _iter_cell(o, tag, Agg("struct", path, [date]))
            tr = "Iterator" if meth == "next" else "DoubleEndedIterator"
            r = o.call(f"<{path} as {tr}>::{meth}", cell, name=tag)
            after = o.state.mem[(0, tag)].fields[0]
            some = opt_is_some(r)
            Yr, Or = decode(o, opt_payload(r), tag + "r")
            Ya, Oa = decode(o, after, tag + "a")
            tgt = base + sgn * step
            o.claim(tag + "_yields_current_iff_step_fits", some == z3.And(tgt >= LO, tgt <= HI))
            o.claim(tag + "_item_is_current", z3.Implies(some, z3.And(Yr == y.e, Or == d.e)))
            o.claim(tag + "_advances_exactly", z3.Implies(some, z3.And(dayno(Ya, Oa) == tgt, Oa >= 1, Oa <= z3.If(is_leap(Ya), 366, 365))))
            o.claim(tag + "_stays_put_at_the_limit", z3.Implies(z3.Not(some), z3.And(Ya == y.e, Oa == d.e)))
            flat += [z3.If(some, 1, 0)]
        cell = _iter_cell(o, kind + "_hint", Agg("struct", path, [date]))
        h = o.call(f"<{path} as Iterator>::size_hint", o.ref(Agg("struct", path, [date])), name=kind + "_hint")
        want = (HI - base) / step
        o.claim(kind + "_size_hint_exact", z3.And(h.fields[0].e == want, opt_is_some(h.fields[1]), opt_payload(h.fields[1]).e == want))
        flat += [h.fields[0].e]
    o.flat = flat
    o.no_panic()
    o.reachable("at_max", z3.And(y.e == MAXY, d.e == 365))
