"""C14 / C15 — Parsed::to_naive_datetime_with_offset when only a timestamp (and optionally a second field) was parsed:
the reconstruction path (timestamp -> date-time -> fields -> re-resolution) is integer arithmetic that Engine K cannot
decide at full i64 width.  Day-number kernels through their C01 contracts, date/date-time arithmetic through C03's."""
import os
import importlib.util
import z3
from api import obligation, opt_is_some, opt_payload
from symex import IntV, BoolV, Agg, EnumV, OpaqueV
import api as _api

_saved = list(_api.REGISTRY)
_spec = importlib.util.spec_from_file_location("c03_shared_for_c14", os.path.join(os.path.dirname(__file__), "c03.py"))
c03 = importlib.util.module_from_spec(_spec)
_spec.loader.exec_module(c03)
_spec2 = importlib.util.spec_from_file_location("c02_shared_for_c14", os.path.join(os.path.dirname(__file__), "c02.py"))
c02 = importlib.util.module_from_spec(_spec2)
_spec2.loader.exec_module(c02)
_api.REGISTRY[:] = _saved

DAY = 86400
G = 1000000000
EPOCH = 719163
NONE = lambda: EnumV("Option", 0)
SOME = lambda v: EnumV("Option", 1, {1: [v]})


@obligation(prop="C14", tier="quick", timeout=900, probe="parsed_timestamp", also=("C15",),
            desc="Parsed::to_naive_datetime_with_offset with only `timestamp` (any i64) and optionally `second` (0..=60) set, for any offset argument: never panics (finding F4 on the original tree: timestamp of the first representable second with second = 60 made `datetime -= 1s` panic), and an Ok result never contradicts the supplied fields: its time of day is (timestamp + offset) mod 86400 and a supplied second 0..=59 is the result's second",
            bounds="all i64 timestamps x second in {absent, 0..=60} x all i32 offsets; every other field absent; day-number kernels and NaiveDate arithmetic through their proved contracts (C01/C03 obligations)",
            outside="other field combinations (Engine K: c14_*), the text parser that fills Parsed; the DATE of the result against the timestamp (the solver did not decide that claim within 90 s per query: not claimed)")
def c14_m_parsed_timestamp(o):
    c02.use_contracts(o)
    o.summarize("naive::date::add_days", c03.sum_add_days)
    o.summarize("naive::date::weekday", c03.sum_weekday)
    o.summarize("naive::date::from_ordinal_and_flags", c03.contract_from_ordinal_and_flags)

    def md_contract(lo, hi, nm):
        def f(ex, st, a):
            v = ex.fresh(nm)
            ex.side.append(z3.And(v >= lo, v <= hi))
            return st, IntV(v, "u32")
        return f
    # month()/day() (Mdf bit tables: Engine K's domain, c01_*): only their range matters here, every field they are
    # compared with is absent
    o.summarize_raw(r"^<NaiveDate as Datelike>::month$", md_contract(1, 12, "month"))
    o.summarize_raw(r"^<NaiveDate as Datelike>::day$", md_contract(1, 31, "day"))
    o.summarize_raw(r"^NaiveDate::month$", md_contract(1, 12, "month"))
    o.summarize_raw(r"^NaiveDate::day$", md_contract(1, 31, "day"))
    ts = o.input("ts", "i64")
    sec = o.input("sec", "i64")
    off = o.input("off", "i32")
    o.require(z3.And(sec.e >= -1, sec.e <= 60))
    second = EnumV("Option", z3.If(sec.e >= 0, 1, 0), {1: [IntV(sec.e, "u32")]})
    fields = [NONE() for _ in range(17)] + [second, NONE(), SOME(ts), NONE(), Agg("tuple", "()", [])]
    p = Agg("struct", "Parsed", fields)
    r = o.call("Parsed::to_naive_datetime_with_offset", o.ref(p), off, name="resolve")
    ok = r.disc == 0
    res = r.payload[0][0]
    Y, O = c03.decode(o, res.fields[0], "r")
    rs_, rf_ = res.fields[1].fields[0].e, res.fields[1].fields[1].e
    o.flat = [z3.If(ok, 1, 0), z3.If(ok, Y, 0), z3.If(ok, O, 0), z3.If(ok, rs_, 0), z3.If(ok, rf_, 0)]
    o.no_panic()
    secs = (c03.dayno(Y, O) - EPOCH) * DAY + rs_
    o.reachable("ok_plain", z3.And(ok, sec.e == -1, ts.e == 1000000000, off.e == 3600))
    o.reachable("ok_leap", z3.And(ok, sec.e == 60, ts.e == 59, off.e == 0))
    o.reachable("err_at_range_start", z3.And(z3.Not(ok), sec.e == 60, ts.e == -8334601228800, off.e == 0))
    T = ts.e + off.e
    o.claim("time_of_day_in_range", z3.Implies(ok, z3.And(rs_ >= 0, rs_ < DAY)))
    o.claim("time_of_day_agrees_with_timestamp", z3.Implies(z3.And(ok, sec.e != 60), rs_ == T % DAY), splits=[sec.e < 0, z3.And(sec.e >= 0, sec.e < 60), sec.e == 60])
    o.claim("given_second_is_kept", z3.Implies(z3.And(ok, sec.e >= 0, sec.e < 60), rs_ % 60 == sec.e))
