"""C05 / C16 — the POSIX TZ rule evaluator (src/offset/local/tz_info/rule.rs), from a MIR dump with --features std,clock.

rule.rs is plain 64-bit integer arithmetic (no tables beyond three 12-entry month arrays), which Engine K cannot decide
at full width but Engine M can:

  c05_m_days_since_unix_epoch   days_since_unix_epoch(year, month, day) is the proleptic Gregorian day count from
                                1970-01-01 for EVERY i32 year (two hand-written branches around 1970)
  c05_m_rule_day_*              RuleDay::transition_date / unix_time for the three day forms (Jn, n, Mm.w.d)
  c05_m_rule_offset_at          AlternateTime::find_local_time_type: DST exactly between the year's start and end instants
  c05_m_rule_local              AlternateTime::find_local_time_type_from_local: the four hemisphere / sign branches against
                                the candidate-instant reference (valid candidates, earliest first, boundary second excepted)

`slice::binary_search` on the 12-entry cumulative month arrays is modelled by its specification for strictly increasing
slices (the executor proves strict monotonicity of the actual array under the path condition before using it)."""
import z3
from api import obligation
from symex import IntV, BoolV, Agg, EnumV, OpaqueV

FE = "std,clock"
EPOCH = 719163          # day number (from 0000-12-31) of 1970-01-01
DAY = 86400
CUM = [0, 31, 59, 90, 120, 151, 181, 212, 243, 273, 304, 334]
DIM = [31, 28, 31, 30, 31, 30, 31, 31, 30, 31, 30, 31]


def is_leap(y):
    return z3.Or(z3.And(y % 4 == 0, y % 100 != 0), y % 400 == 0)


def jan1(y):
    """days from 1970-01-01 to January 1st of year y (floor divisions)"""
    p = y - 1
    return 365 * p + p / 4 - p / 100 + p / 400 + 1 - EPOCH


def cum_expr(m):
    e = z3.IntVal(CUM[11])
    for i in range(10, -1, -1):
        e = z3.If(m == i + 1, CUM[i], e)
    return e


def days_ref(y, m, d):
    return jan1(y) + cum_expr(m) + z3.If(z3.And(is_leap(y), m >= 3), 1, 0) + d - 1


@obligation(prop="C05", tier="quick", timeout=900, features=FE, probe="rule_days_since_epoch", also=("C16",),
            desc="rule.rs days_since_unix_epoch(year, month, day) equals the proleptic Gregorian day count from 1970-01-01 for EVERY i32 year, every month 1..=12 and day 1..=32 (both hand-written branches, before and from 1970, with their truncating divisions), and never overflows",
            bounds="all i32 years x months 1..=12 x days 1..=32 (32: the day the n-form yields for day 365 of a common year)",
            outside="month outside 1..=12 (callers pass transition_date's month)")
def c05_m_days_since_unix_epoch(o):
    y = o.input("year", "i32")
    m = o.input("month", "usize")
    d = o.input("day", "i64")
    o.require(z3.And(m.e >= 1, m.e <= 12, d.e >= 1, d.e <= 32))
    r = o.call("days_since_unix_epoch", y, m, d, name="days")
    o.flat = [r.e]
    o.no_panic()
    o.reachable("before_1970_leap_after_feb", z3.And(y.e < 1970, is_leap(y.e), m.e >= 3))
    o.reachable("i32_min", y.e == -(1 << 31))
    splits = [z3.And(m.e == k, y.e >= 1970) for k in range(1, 13)] + [z3.And(m.e == k, y.e < 1970) for k in range(1, 13)]
    o.claim("equals_reference_day_count", r.e == days_ref(y.e, m.e, d.e), splits=splits)


def sum_days(ex, st, args):
    """contract of days_since_unix_epoch proved by M:c05_m_days_since_unix_epoch (months 1..=12, days 1..=32)"""
    y, m, d = args
    return st, IntV(days_ref(y.e, m.e, d.e), "i64")


def dim_expr(y, m):
    e = z3.IntVal(DIM[11])
    for i in range(10, -1, -1):
        e = z3.If(m == i + 1, DIM[i] + (z3.If(is_leap(y), 1, 0) if i == 1 else 0), e)
    return e


def rule_day(kind, a=None, week=None, wd=None):
    if kind == 0:
        return EnumV("RuleDay", 0, {0: [a]})
    if kind == 1:
        return EnumV("RuleDay", 1, {1: [a]})
    return EnumV("RuleDay", 2, {2: [a, week, wd]})


@obligation(prop="C05", tier="quick", timeout=900, features=FE, probe="rule_day_julian", also=("C16",),
            desc="RuleDay::unix_time for the two Julian day forms, for EVERY i32 year: `Jn` (n in 1..=365, February 29 never counted) is n-1 days after January 1st plus one more from March in leap years; `n` (0..=365, leap day counted) is exactly n days after January 1st (day 365 of a common year is January 1st of the next); the result is that day's midnight in Unix seconds plus the given time, no overflow, no out-of-bounds month index",
            bounds="all i32 years x all valid day numbers x day times |t| < 2^40; slice::binary_search by its specification on the (proved strictly increasing) month table",
            outside="")
def c05_m_rule_day_julian(o):
    y = o.input("year", "i32")
    n1 = o.input("n1", "u16")
    n0 = o.input("n0", "u16")
    t = o.input("t", "i64")
    o.require(z3.And(n1.e >= 1, n1.e <= 365, n0.e <= 365, t.e > -(1 << 40), t.e < (1 << 40)))
    r1 = o.call("RuleDay::unix_time", o.ref(rule_day(0, n1)), y, t, name="j1")
    r0 = o.call("RuleDay::unix_time", o.ref(rule_day(1, n0)), y, t, name="j0")
    o.flat = [r1.e, r0.e]
    o.no_panic()
    o.reachable("leap_year_after_feb", z3.And(is_leap(y.e), n1.e >= 60))
    o.reachable("day_365_of_common_year", z3.And(z3.Not(is_leap(y.e)), n0.e == 365))
    leap = is_leap(y.e)
    o.claim("Jn_skips_feb_29", r1.e == (jan1(y.e) + n1.e - 1 + z3.If(z3.And(leap, n1.e >= 60), 1, 0)) * DAY + t.e,
            splits=[z3.And(leap, n1.e >= 60), z3.And(leap, n1.e < 60), z3.Not(leap)])
    o.claim("n_counts_feb_29", r0.e == (jan1(y.e) + n0.e) * DAY + t.e, splits=[leap, z3.Not(leap)])


@obligation(prop="C05", tier="quick", timeout=900, features=FE, probe="rule_day_mwd", also=("C16",),
            desc="RuleDay::transition_date / unix_time for the Mm.w.d form, for EVERY i32 year: the date lies in month m, its weekday (1970-01-01 = Thursday) is d, it is the w-th such weekday of the month for w <= 4 and the last one for w = 5; unix_time is that day's midnight plus the given time",
            bounds="all i32 years x months 1..=12 x weeks 1..=5 x weekdays 0..=6 x |t| < 2^40; days_since_unix_epoch through its contract (M:c05_m_days_since_unix_epoch)",
            outside="")
def c05_m_rule_day_mwd(o):
    o.summarize("days_since_unix_epoch", sum_days)
    y = o.input("year", "i32")
    m = o.input("month", "u8")
    w = o.input("week", "u8")
    wd = o.input("week_day", "u8")
    t = o.input("t", "i64")
    o.require(z3.And(m.e >= 1, m.e <= 12, w.e >= 1, w.e <= 5, wd.e <= 6, t.e > -(1 << 40), t.e < (1 << 40)))
    rd = rule_day(2, m, w, wd)
    date = o.call("RuleDay::transition_date", o.ref(rd), y, name="date")
    ut = o.call("RuleDay::unix_time", o.ref(rd), y, t, name="unix")
    mm, md = date.fields[0].e, date.fields[1].e
    o.flat = [mm, md, ut.e]
    o.no_panic()
    o.reachable("last_week_shorter_month", z3.And(w.e == 5, m.e == 2, z3.Not(is_leap(y.e))))
    dim = dim_expr(y.e, m.e)
    o.claim("in_the_month", z3.And(mm == m.e, md >= 1, md <= dim))
    o.claim("on_the_weekday", (4 + days_ref(y.e, m.e, md)) % 7 == wd.e)
    o.claim("wth_or_last_occurrence", z3.If(w.e <= 4, z3.And(md > 7 * (w.e - 1), md <= 7 * w.e), z3.And(md > dim - 7, md > 21)))
    o.claim("unix_time_is_midnight_plus_time", ut.e == days_ref(y.e, m.e, md) * DAY + t.e)


def civil_fields(o, t, tag):
    """reference decomposition of a Unix time: fresh (Y, M, D, h, mi, s) pinned down uniquely by linear constraints"""
    Y, Mo, D = z3.Int("Y" + tag), z3.Int("M" + tag), z3.Int("D" + tag)
    days = z3.Int("days" + tag)
    secs = z3.Int("secs" + tag)
    o.require(z3.And(t == days * DAY + secs, secs >= 0, secs < DAY))
    o.require(z3.And(Mo >= 1, Mo <= 12, D >= 1, D <= dim_expr(Y, Mo), days == days_ref(Y, Mo, D)))
    return Y, Mo, D, secs


@obligation(prop="C05", tier="quick", timeout=900, features=FE, probe="rule_from_timespec", also=("C16",),
            desc="UtcDateTime::from_timespec(unix_time): Ok exactly when the calendar year of the instant fits in i32, and then `year` IS that calendar year (the field the rule evaluator reads), hour/minute/second are the UTC clock reading, month is in 1..=12 and the day within that month's length; never a panic. The month-walk loop is unrolled 13 times and the bound is refuted as a panic edge",
            bounds="all i64 Unix times; loop unrolled 13x (12 months + exit), exceeding it is a checked panic edge",
            outside="that (month, day) are exactly the day floor(t / 86400) within the year: only their ranges are decided (the exactness query needs minutes per residue class of the year and was dropped); the rule evaluator reads only `year`")
def c05_m_from_timespec(o):
    o.unwind("::from_timespec", 13)
    t = o.input("t", "i64")
    r = o.call("UtcDateTime::from_timespec", t, name="civil")
    ok = r.disc == 0
    u = r.payload[0][0]
    fy, fm, fd, fh, fmi, fs = [u.fields[i].e for i in range(6)]
    o.flat = [z3.If(ok, 1, 0)] + [z3.If(ok, x, 0) for x in (fy, fm, fd, fh, fmi, fs)]
    o.no_panic()
    # The civil date of a day number is unique, so correctness is stated directly on the code's outputs (no reference
    # decomposition with fresh variables for the solver to match): the date fields form a valid date whose day count
    # from 1970-01-01 is floor(t / 86400), and the clock fields are t mod 86400.
    days, secs = t.e / DAY, t.e % DAY
    o.reachable("negative_time", z3.And(t.e < 0, ok))
    o.reachable("year_out_of_i32", z3.Not(ok))
    # the year that floor(t/86400) falls into, bracketed by January 1st of two consecutive years
    Y = z3.Int("Yref")
    o.require(z3.And(jan1(Y) <= days, days < jan1(Y + 1)))
    o.claim("ok_iff_year_fits", ok == z3.And(Y >= -(1 << 31), Y <= (1 << 31) - 1))
    o.claim("clock_fields", z3.Implies(ok, z3.And(fh == secs / 3600, fmi == secs / 60 % 60, fs == secs % 60)))
    month_splits = [fm == k for k in range(1, 13)] + [z3.Or(fm < 1, fm > 12)]
    o.claim("month_and_day_in_range", z3.Implies(ok, z3.And(fm >= 1, fm <= 12, fd >= 1, fd <= dim_expr(fy, fm))), splits=month_splits)
    o.claim("year_is_the_calendar_year", z3.Implies(ok, fy == Y), splits=[z3.And(fm >= 3, fm <= 12), z3.And(fm >= 1, fm <= 2), z3.Or(fm < 1, fm > 12)])


# ---- the rule as a whole: AlternateTime lookups ---------------------------------------------------------------------
import os as _os
import importlib.util as _ilu
import api as _api

_saved = list(_api.REGISTRY)
_spec = _ilu.spec_from_file_location("c03_shared_for_c05", _os.path.join(_os.path.dirname(__file__), "c03.py"))
c03 = _ilu.module_from_spec(_spec)
_spec.loader.exec_module(c03)
_api.REGISTRY[:] = _saved


def sum_unix_time(ex, st, args):
    """contract of RuleDay::unix_time for the `n` form proved by M:c05_m_rule_day_julian: n days after January 1st"""
    rd = ex.load(st, args[0])
    n = rd.payload[1][0]
    return st, IntV((jan1(args[1].e) + n.e) * DAY + args[2].e, "i64")


def sum_from_timespec(yvar):
    """contract of UtcDateTime::from_timespec proved by M:c05_m_from_timespec: Ok with the year of the instant (the other
    fields are not read by the rule code)"""
    def f(ex, st, args):
        u = Agg("struct", "UtcDateTime", [IntV(yvar, "i32")] + [OpaqueV("unused field")] * 5)
        return st, EnumV("Result", 0, {0: [u]})
    return f


def ltt(off, is_dst):
    return Agg("struct", "LocalTimeType", [off, BoolV(is_dst), EnumV("Option", 0)])


def rule_inputs(o):
    so = o.input("std_off", "i32")
    do = o.input("dst_off", "i32")
    ns = o.input("start_day", "u16")
    ts = o.input("start_time", "i32")
    ne = o.input("end_day", "u16")
    te = o.input("end_time", "i32")
    o.require(z3.And(so.e > -DAY, so.e < DAY, do.e > -DAY, do.e < DAY, ns.e <= 365, ne.e <= 365,
                     ts.e >= 0, ts.e < 90000, te.e >= 0, te.e < 90000))
    alt = Agg("struct", "AlternateTime", [ltt(so, False), ltt(do, True), rule_day(1, ns), ts, rule_day(1, ne), te])
    return alt, so, do, ns, ts, ne, te


def year_lemmas(o, Y):
    yv = z3.Int("yl")
    o.lemma("jan1_step", [yv], jan1(yv + 1) == jan1(yv) + 365 + z3.If(is_leap(yv), 1, 0))
    for k in (-1, 0, 1):
        o.use_lemma("jan1_step", Y + k)


@obligation(prop="C05", tier="quick", timeout=900, features=FE, probe="rule_offset_at", also=("C16",),
            desc="AlternateTime::find_local_time_type (offset at an instant under a POSIX rule): DST is in force exactly from the year's start instant (start day + start time - standard offset) up to the year's end instant (end day + end time - DST offset), in either order of the two (northern / southern hemisphere), for every instant and every rule whose transitions lie more than a day inside each calendar year; the previous/next-year probing never changes that; no overflow",
            bounds="|unix time| < 2^55 (years within i32); offsets in (-24h, 24h); `n` day form 0..=365 for both rule days (the other day forms reach the same code through RuleDay::unix_time, decided in c05_m_rule_day_*); rule times 0..25h; transitions more than one day inside the years Y-1, Y, Y+1 and distinct; from_timespec and RuleDay::unix_time through their contracts",
            outside="rules whose transitions fall within a day of New Year (outside the property's quantifier); extended (negative / >25h) rule times")
def c05_m_rule_offset_at(o):
    alt, so, do, ns, ts, ne, te = rule_inputs(o)
    t = o.input("t", "i64")
    o.require(z3.And(t.e > -(1 << 55), t.e < (1 << 55)))
    Y = z3.Int("Yc")
    o.require(z3.And(jan1(Y) * DAY <= t.e, t.e < jan1(Y + 1) * DAY))
    year_lemmas(o, Y)
    o.summarize_raw(r"^UtcDateTime::from_timespec$", sum_from_timespec(Y))
    o.summarize_raw(r"^RuleDay::unix_time$", sum_unix_time)
    s_of = lambda y: (jan1(y) + ns.e) * DAY + ts.e - so.e
    e_of = lambda y: (jan1(y) + ne.e) * DAY + te.e - do.e
    for k in (-1, 0, 1):
        for f in (s_of, e_of):
            o.require(z3.And(jan1(Y + k) * DAY + DAY < f(Y + k), f(Y + k) < jan1(Y + k + 1) * DAY - DAY))
    s, e = s_of(Y), e_of(Y)
    o.require(s != e)
    r = o.call("AlternateTime::find_local_time_type", o.ref(alt), t, name="at")
    ok = r.disc == 0
    res = o.ex.load(o.state, r.payload[0][0])
    got_dst = res.fields[1].e
    got_off = res.fields[0].e
    o.flat = [z3.If(ok, 1, 0), z3.If(ok, got_off, 0)]
    o.no_panic()
    want = z3.If(s < e, z3.And(s <= t.e, t.e < e), z3.Not(z3.And(e <= t.e, t.e < s)))
    o.reachable("southern", z3.And(e < s, want))
    o.reachable("northern_dst", z3.And(s < e, want))
    o.claim("always_ok", ok)
    o.claim("dst_exactly_between_start_and_end", z3.And(got_dst == want, got_off == z3.If(want, do.e, so.e)))


def sum_daynum_ghost(ex, st, args):
    """contract of NaiveDate::num_days_from_ce (M:c01_m_daynum_of_date) on a date input carrying its (year, ordinal)"""
    d = ex.load(st, args[0])
    Y, O = c03.ghost_or_decode(ex, d, "dn")
    return st, IntV(c03.dayno(Y, O), "i32")


@obligation(prop="C05", tier="quick", timeout=900, features=FE, probe="rule_local", also=("C16",),
            desc="AlternateTime::find_local_time_type_from_local (offsets for a wall-clock time under a POSIX rule, all four hemisphere / sign branches): the result is exactly the set of offsets whose candidate instant (wall clock minus offset) really has that offset under the rule -- none inside the skipped interval, both inside the repeated interval with the EARLIER instant first, one otherwise -- for every wall-clock time except the boundary seconds of the two intervals, also when both transitions fall in one calendar month (finding F16 on the original tree: the branch was chosen by comparing months); never an error or overflow",
            bounds="all representable wall-clock times (fraction ignored by the code) x offsets in (-24h, 24h) x `n` day form 0..=365 for both days x rule times 0..25h; transitions more than one day inside the wall-clock year and more than two days apart from each other; the 4 boundary seconds per year (start/end of the gap and of the fold) are exempt as in the property; RuleDay::unix_time and num_days_from_ce through their contracts, transition_date executed (month comparison)",
            outside="rules whose transitions fall within a day of New Year or within two days of each other")
def c05_m_rule_local(o):
    alt, so, do, ns, ts, ne, te = rule_inputs(o)
    y, d, date = c03.date_input(o, "")
    secs = o.input("secs", "u32")
    o.require(secs.e < DAY)
    ndt = Agg("struct", "NaiveDateTime", [date, Agg("struct", "NaiveTime", [secs, IntV(0, "u32")])])
    o.summarize("naive::date::num_days_from_ce", sum_daynum_ghost)
    o.summarize_raw(r"^RuleDay::unix_time$", sum_unix_time)
    Y = y.e
    year_lemmas(o, Y)
    L = (jan1(Y) + d.e - 1) * DAY + secs.e
    S = (jan1(Y) + ns.e) * DAY + ts.e          # wall clock (standard time) at which DST starts
    S2 = S + do.e - so.e                       # wall clock (DST) right after the start
    E = (jan1(Y) + ne.e) * DAY + te.e          # wall clock (DST) at which DST ends
    E2 = E + so.e - do.e                       # wall clock (standard time) right after the end
    s, e = S - so.e, E - do.e                  # the two transition instants
    for x in (s, e):
        o.require(z3.And(jan1(Y) * DAY + DAY < x, x < jan1(Y + 1) * DAY - DAY))
    # the DST period and the standard period both outlast the offset change (|dst - std| < 48h): no rule in use comes
    # anywhere near; without it the skipped and the repeated interval overlap and "the" answer is not defined
    o.require(z3.Or(s - e > 2 * DAY, e - s > 2 * DAY))
    r = o.call("AlternateTime::find_local_time_type_from_local", o.ref(alt), ndt, name="local")
    ok = r.disc == 0
    m = r.payload[0][0]
    kind = m.disc
    offs = lambda v: v.fields[0].e
    a1 = offs(m.payload[0][0])
    a2, b2 = offs(m.payload[1][0]), offs(m.payload[1][1])
    o.flat = [z3.If(ok, 1, 0), z3.If(ok, kind, 0), z3.If(z3.And(ok, kind == 0), a1, z3.If(z3.And(ok, kind == 1), a2, 0)), z3.If(z3.And(ok, kind == 1), b2, 0)]
    o.no_panic()
    is_dst = lambda u: z3.If(s < e, z3.And(s <= u, u < e), z3.Not(z3.And(e <= u, u < s)))
    vs = z3.Not(is_dst(L - so.e))
    vd = is_dst(L - do.e)
    boundary = z3.Or(L == S, L == S2, L == E, L == E2)
    hi, lo = z3.If(so.e > do.e, so.e, do.e), z3.If(so.e > do.e, do.e, so.e)
    want = z3.If(so.e == do.e, z3.And(kind == 0, a1 == so.e),
                 z3.If(z3.And(vs, vd), z3.And(kind == 1, a2 == hi, b2 == lo),
                       z3.If(vs, z3.And(kind == 0, a1 == so.e),
                             z3.If(vd, z3.And(kind == 0, a1 == do.e), kind == 2))))
    o.reachable("gap", z3.And(z3.Not(vs), z3.Not(vd), z3.Not(boundary)))
    o.reachable("fold", z3.And(vs, vd, so.e != do.e, z3.Not(boundary)))
    o.reachable("southern_negative_dst", z3.And(e < s, do.e < so.e))
    o.reachable("dst_within_one_month", z3.And(s < e, ns.e >= 59, ne.e <= 89, z3.Not(is_leap(y.e))))
    o.claim("always_ok", ok)
    o.claim("offsets_are_the_valid_candidates_earliest_first", z3.Implies(z3.Not(boundary), want),
            splits=[z3.And(s < e, so.e < do.e), z3.And(s < e, so.e > do.e), z3.And(s > e, so.e < do.e), z3.And(s > e, so.e > do.e), so.e == do.e])
