"""C20 — the sixteen timestamp helper modules (feature `serde`): visitors and serializers, from the MIR of a dump built
with --features std,serde.

The serde framework itself is not encoded: a visitor is called directly with the integer a Deserializer would hand it,
and `<S as Serializer>::serialize_*` is a contract that returns its argument (so the function's result shows exactly
what was written).  Error values are opaque (the closure that formats the message is not executed).  The day-number
kernels are used through their C01 contracts, as in C02."""
import os
import importlib.util
import z3
from api import obligation, opt_is_some, opt_payload
from symex import IntV, Agg, EnumV, OpaqueV, State
import api as _api

_saved = list(_api.REGISTRY)
_spec = importlib.util.spec_from_file_location("c02_shared_for_c20", os.path.join(os.path.dirname(__file__), "c02.py"))
c02 = importlib.util.module_from_spec(_spec)
_spec.loader.exec_module(c02)
_api.REGISTRY[:] = _saved

G = 1000000000
DAY = 86400
EPOCH = 719163
LO, HI = c02.LO, c02.HI
dayno = c02.dayno
I64MAX = (1 << 63) - 1


def ser_contracts(o):
    o.summarize_raw(r"^<S as Serializer>::serialize_i64$", lambda ex, st, a: (st, EnumV("Result", 0, {0: [Agg("tuple", "written", [IntV(0, "u8"), a[1]])]})))
    o.summarize_raw(r"^<S as Serializer>::serialize_none$", lambda ex, st, a: (st, EnumV("Result", 0, {0: [Agg("tuple", "written", [IntV(1, "u8"), IntV(0, "i64")])]})))
    o.summarize_raw(r"^<S as Serializer>::serialize_some::<i64>$",
                    lambda ex, st, a: (st, EnumV("Result", 0, {0: [Agg("tuple", "written", [IntV(2, "u8"), ex.load(st, a[1])])]})))
    o.summarize_raw(r"as serde::ser::Error>::custom::<&str>$", lambda ex, st, a: (st, OpaqueV("ser error")))
    o.summarize_raw(r"(^|::)invalid_ts::<", lambda ex, st, a: (st, OpaqueV("de error (invalid timestamp)")))
    o.summarize_raw(r"as serde::de::Error>::custom::<", lambda ex, st, a: (st, OpaqueV("de error")))


def fields_of(val, naive):
    ndt = val if naive else val.fields[0]
    date, time = ndt.fields[0], ndt.fields[1]
    return date.fields[0].e, time.fields[0].e, time.fields[1].e


def _module(mod, unit_name, per, naive):
    tag = ("naive_" if naive else "utc_") + unit_name
    path = ("naive::datetime::serde::" if naive else "datetime::serde::") + unit_name

    @obligation(prop="C20", tier="quick", timeout=900, features="std,serde", probe="serde_" + tag,
                desc=f"{path}: visit_i64 (all i64) and visit_u64 (all u64) return Ok exactly when the count denotes a representable instant, and then exactly that instant at the module's precision (floor split for negative counts; u64 counts beyond i64 are rejected, never wrapped); serialize writes exactly the module's integer timestamp of the value (or fails where documented: nanoseconds outside the i64 window); the _option variant writes none/some accordingly",
                bounds="all i64 / all u64 counts; all non-leap UTC date-times for serialize; serde framework abstracted (visitor called directly, Serializer methods return what they were given); day-number kernels via their C01 contracts",
                outside="serde_json / bincode themselves; error message formatting (closures building the error are not executed)")
    def ob(o):
        # all inputs and calls first, then the checks: a failing check must find the complete input tuple and output
        # vector for its native replay
        later = []
        _claim = lambda *a, **k: later.append(lambda: o.claim(*a, **k))
        _no_panic = lambda *a, **k: later.append(lambda: o.no_panic(*a, **k))
        _reachable = lambda *a, **k: later.append(lambda: o.reachable(*a, **k))
        c02.use_contracts(o)
        ser_contracts(o)
        o.set_tyenv(Tz="Utc")
        vis = Agg("struct", "Visitor", [])
        # --- visit_i64
        v = o.input("v", "i64")
        r = o.call_named(rf"^{path}::<impl at [^>]*>::visit_i64$", vis, v, name="visit_i64")
        ok = r.disc == 0
        yof, tsec, tfrac = fields_of(r.payload[0][0], naive)
        Y, O = c02.decode(o, yof, "i")
        s = v.e / per
        sub = v.e - s * per
        day = s / DAY + EPOCH
        _no_panic()
        _reachable("i64_ok_negative", z3.And(ok, v.e < 0))
        if per != G:
            _reachable("i64_err", z3.Not(ok))
        flat = [z3.If(ok, 1, 0), z3.If(ok, Y, 0), z3.If(ok, O, 0), z3.If(ok, tsec, 0), z3.If(ok, tfrac, 0)]
        _claim("visit_i64_ok_iff_representable", ok == z3.And(day >= LO, day <= HI))
        _claim("visit_i64_instant", z3.Implies(ok, z3.And(dayno(Y, O) == day, tsec == s % DAY, tfrac == sub * (G // per))))
        # --- visit_u64
        u = o.input("u", "u64")
        r2 = o.call_named(rf"^{path}::<impl at [^>]*>::visit_u64$", vis, u, name="visit_u64")
        ok2 = r2.disc == 0
        yof2, tsec2, tfrac2 = fields_of(r2.payload[0][0], naive)
        Y2, O2 = c02.decode(o, yof2, "u")
        s2 = u.e / per
        sub2 = u.e - s2 * per
        day2 = s2 / DAY + EPOCH
        _no_panic("no_panic_u64")
        if per != G:
            _reachable("u64_err_huge", z3.And(z3.Not(ok2), u.e > I64MAX))
        else:
            _reachable("u64_ok_huge", z3.And(ok2, u.e > I64MAX))
        flat += [z3.If(ok2, 1, 0), z3.If(ok2, Y2, 0), z3.If(ok2, O2, 0), z3.If(ok2, tsec2, 0), z3.If(ok2, tfrac2, 0)]
        _claim("visit_u64_ok_iff_representable", ok2 == z3.And(day2 >= LO, day2 <= HI))
        _claim("visit_u64_instant", z3.Implies(ok2, z3.And(dayno(Y2, O2) == day2, tsec2 == s2 % DAY, tfrac2 == sub2 * (G // per))))
        # --- serialize: any non-leap UTC date-time given by (year, ordinal, second of day, fraction)
        yy = o.input("sy", "i32")
        oo = o.input("so", "u32")
        ts = o.input("sts", "u32")
        tf = o.input("stf", "u32")
        F = z3.Int("sF")
        o.require(z3.And(yy.e >= c02.MINY, yy.e <= c02.MAXY, oo.e >= 1, oo.e <= z3.If(c02.is_leap(yy.e), 366, 365), ts.e < DAY, tf.e < G, F >= 1, F < 16))
        ndt = Agg("struct", "NaiveDateTime", [Agg("struct", "NaiveDate", [IntV(yy.e * 8192 + oo.e * 16 + F, "i32")]), Agg("struct", "NaiveTime", [ts, tf])])
        val = ndt if naive else Agg("struct", "DateTime", [ndt, Agg("struct", "Utc", [])])
        w = o.call_named(rf"^{path}::serialize$", o.ref(val), OpaqueV("serializer"), name="serialize")
        secs = (dayno(yy.e, oo.e) - EPOCH) * DAY + ts.e
        exact = secs * per + tf.e / (G // per)
        _no_panic("no_panic_ser")
        wok = w.disc == 0
        written = w.payload[0][0]
        if per == G:
            fits = z3.And(exact >= -(1 << 63), exact <= I64MAX)
            _reachable("ser_err", z3.Not(wok))
            _claim("serialize_ok_iff_fits", wok == fits)
        else:
            _claim("serialize_always_ok", wok)
        _claim("serialize_writes_exact_timestamp", z3.Implies(wok, z3.And(written.fields[0].e == 0, written.fields[1].e == exact)))
        # --- option variant
        some = EnumV("Option", 1, {1: [val]})
        none = EnumV("Option", 0, {})
        w1 = o.call_named(rf"^{path}_option::serialize$", o.ref(some), OpaqueV("serializer"), name="serialize_some")
        w0 = o.call_named(rf"^{path}_option::serialize$", o.ref(none), OpaqueV("serializer"), name="serialize_none")
        _no_panic("no_panic_opt")
        def wr(w):
            okw = w.disc == 0
            c = w.payload[0][0]
            return [z3.If(okw, 1, 0), z3.If(okw, c.fields[0].e, 0), z3.If(okw, c.fields[1].e, 0)]
        o.flat = flat + wr(w) + wr(w1) + wr(w0)
        _claim("option_none", z3.And(w0.disc == 0, w0.payload[0][0].fields[0].e == 1))
        _claim("option_some", z3.Implies(w1.disc == 0, z3.And(w1.payload[0][0].fields[0].e == 2, w1.payload[0][0].fields[1].e == exact)))
        if per == G:
            _claim("option_some_ok_iff_fits", (w1.disc == 0) == z3.And(exact >= -(1 << 63), exact <= I64MAX))
        else:
            _claim("option_some_ok", w1.disc == 0)
        for f in later:
            f()
    ob.__name__ = "c20_m_" + tag
    return ob


for _naive in (False, True):
    for _unit, _per in (("ts_seconds", 1), ("ts_milliseconds", 1000), ("ts_microseconds", 1000000), ("ts_nanoseconds", G)):
        _f = _module(None, _unit, _per, _naive)
        globals()[_f.__name__] = _f
for _ob in _api.REGISTRY:
    if _ob.fn.__name__.startswith("c20_m_"):
        _ob.name = _ob.fn.__name__
