"""C15 — fallible operations fail by value: Engine-M part for DateTime<FixedOffset> entry points whose text/round
machinery is too large for Kani but whose panic edges are plain integer conditions.

The MIR of `DateTime::<Tz>::to_rfc3339_opts`, `to_rfc3339` and `impl DurationRound for DateTime<Tz>` is executed at
Tz = FixedOffset.  The formatting sink itself (String, write_rfc3339) and the generic rounding kernels are contracts that
return normally (they are covered by C10/C12 writer harnesses and by M:c17_m_duration_*); what is decided here is that
nothing *before* them can panic for any date-time and any offset: in particular the wall-clock view used."""
import os
import importlib.util
import z3
from api import obligation, opt_is_some, opt_payload
from symex import IntV, BoolV, Agg, EnumV, OpaqueV, State
import api as _api

_saved = list(_api.REGISTRY)
_spec = importlib.util.spec_from_file_location("c03_shared_for_c15", os.path.join(os.path.dirname(__file__), "c03.py"))
c03 = importlib.util.module_from_spec(_spec)
_spec.loader.exec_module(c03)
_api.REGISTRY[:] = _saved
c07 = c03.c07
G = 1000000000
DAY = 86400


def dt_input(o):
    y, d, date = c03.date_input(o, "")
    t, ts, tf = c07.time_input(o, "")
    off = o.input("off", "i32")
    o.require(z3.And(off.e > -DAY, off.e < DAY))
    fo = Agg("struct", "FixedOffset", [off])
    return Agg("struct", "DateTime", [Agg("struct", "NaiveDateTime", [date, t]), fo]), y, d, ts, off


def contracts(o):
    o.set_tyenv(Tz="FixedOffset")
    o.summarize_raw(r"as Offset>::fix$", lambda ex, st, a: (st, ex.load(st, a[0])))
    o.summarize_raw(r"^String::with_capacity$", lambda ex, st, a: (st, OpaqueV("String")))
    o.summarize_raw(r"^write_rfc3339::<String>$", lambda ex, st, a: (st, EnumV("Result", 0, {0: [Agg("tuple", "()", [])]})))
    o.summarize_raw(r"^duration_(round|trunc|round_up)::<DateTime<", lambda ex, st, a: (st, EnumV("Result", 1, {1: [OpaqueV("rounding result")]})))
    o.summarize("naive::date::add_days", c03.sum_add_days)


@obligation(prop="C15", tier="quick", timeout=600, probe="rfc3339_total",
            desc="DateTime<FixedOffset>::to_rfc3339_opts and to_rfc3339 reach their writer without panicking for EVERY UTC date-time and EVERY offset, including the first and last day where the wall clock lies in the headroom beyond MIN/MAX (finding F7 on the original tree: to_rfc3339_opts unwrapped naive_local())",
            bounds="all dates x all times of day x all offsets in (-24h, 24h); String and write_rfc3339 are contracts that return normally; succ/pred day stepping executed from the MIR",
            outside="the text produced (C10/C12), allocation failure")
def c15_m_rfc3339_total(o):
    contracts(o)
    dt, y, d, ts, off = dt_input(o)
    sf = EnumV("SecondsFormat", 0)
    o.call("DateTime::<FixedOffset>::to_rfc3339_opts", o.ref(dt), sf, BoolV(True), name="opts")
    o.call("DateTime::<FixedOffset>::to_rfc3339", o.ref(dt), name="plain")
    o.flat = [z3.IntVal(1)]
    o.no_panic()
    o.reachable("headroom_after_max", z3.And(y.e == c03.MAXY, d.e == 365, ts + off.e >= DAY))
    o.reachable("headroom_before_min", z3.And(y.e == c03.MINY, d.e == 1, ts + off.e < 0))


@obligation(prop="C15", tier="quick", timeout=600, probe="round_total",
            desc="DurationRound for DateTime<FixedOffset> (duration_round / duration_trunc / duration_round_up) reaches the rounding kernel without panicking for every UTC date-time and every offset (finding F6 on the original tree: naive_local() panicked in the headroom day before the range check could return Err)",
            bounds="all dates x all times of day x all offsets in (-24h, 24h); the generic kernels duration_* are contracts (decided by M:c17_m_duration_*)")
def c15_m_round_total(o):
    contracts(o)
    dt, y, d, ts, off = dt_input(o)
    td = Agg("struct", "TimeDelta", [IntV(1, "i64"), IntV(0, "i32")])
    for fn in ("duration_round", "duration_trunc", "duration_round_up"):
        o.call(f"<DateTime<FixedOffset> as DurationRound>::{fn}", dt, td, name=fn)
    o.flat = [z3.IntVal(1)]
    o.no_panic()
    o.reachable("headroom_after_max", z3.And(y.e == c03.MAXY, d.e == 365, ts + off.e >= DAY))


@obligation(prop="C04", tier="quick", timeout=600, probe="display_total",
            desc="Display and Debug of DateTime<FixedOffset> format the wall-clock reading obtained without panicking for EVERY UTC date-time and EVERY offset, including the headroom day beyond MIN/MAX at the range ends (they must use the non-panicking wall-clock view)",
            bounds="all dates x all times of day x all offsets in (-24h, 24h); the NaiveDateTime / FixedOffset formatters themselves are contracts that return normally")
def c04_m_display_total(o):
    contracts(o)
    o.summarize_raw(r"^<NaiveDateTime as (std::fmt::)?(Display|Debug)>::fmt$", lambda ex, st, a: (st, EnumV("Result", 0, {0: [Agg("tuple", "()", [])]})))
    o.summarize_raw(r"^<(<Tz as TimeZone>::Offset|FixedOffset|<FixedOffset as TimeZone>::Offset) as (std::fmt::)?(Display|Debug)>::fmt$", lambda ex, st, a: (st, EnumV("Result", 0, {0: [Agg("tuple", "()", [])]})))
    o.summarize_raw(r"Formatter(::)?<'_>(::| as std::fmt::Write>::| as Write>::)write_(char|str)$", lambda ex, st, a: (st, EnumV("Result", 0, {0: [Agg("tuple", "()", [])]})))
    dt, y, d, ts, off = dt_input(o)
    f = OpaqueV("formatter")
    o.call("<DateTime<FixedOffset> as Display>::fmt", o.ref(dt), f, name="display")
    o.call("<DateTime<FixedOffset> as Debug>::fmt", o.ref(dt), f, name="debug")
    o.flat = [z3.IntVal(1)]
    o.no_panic()
    o.reachable("headroom_after_max", z3.And(y.e == c03.MAXY, d.e == 365, ts + off.e >= DAY))


@obligation(prop="C15", tier="quick", timeout=900, probe="with_time_range",
            desc="DateTime<FixedOffset>::with_time never builds an out-of-range value: whenever it returns Single(dt), the stored UTC reading of dt lies on a representable date (year in [-262143, 262142]) -- also when the wall clock of the receiver lies in the headroom day beyond MIN/MAX; and it never panics",
            bounds="all UTC date-times x all offsets in (-24h, 24h) x all replacement times of day",
            outside="Local and other zones with gaps/folds (only FixedOffset is instantiated)")
def c15_m_with_time_in_range(o):
    contracts(o)
    dt, y, d, ts, off = dt_input(o)
    t2, ts2, tf2 = c07.time_input(o, "n")
    r = o.call("DateTime::<FixedOffset>::with_time", o.ref(dt), t2, name="with_time")
    # MappedLocalTime: Single = 0, Ambiguous = 1, None = 2 (declaration order)
    single = r.disc == 0
    res = r.payload[0][0]
    yof = res.fields[0].fields[0].fields[0].e
    Yr = z3.Int("Ywt")
    Or_, Fr = z3.Int("Owt"), z3.Int("Fwt")
    o.require(z3.And(yof == Yr * 8192 + Or_ * 16 + Fr, Fr >= 0, Fr < 16, Or_ >= 0, Or_ < 512))
    o.flat = [z3.If(single, 1, 0), z3.If(single, Yr, 0)]
    o.no_panic()
    o.reachable("headroom_receiver", z3.And(y.e == c03.MAXY, d.e == 365, ts + off.e >= DAY))
    o.reachable("single", single)
    o.claim("single_result_is_in_range", z3.Implies(single, z3.And(Yr >= c03.MINY, Yr <= c03.MAXY)))


OKR = lambda: EnumV("Result", 0, {0: [Agg("tuple", "()", [])]})


def writer_sink_contracts(o):
    """the `impl fmt::Write` sink is a String: pushing text cannot fail; everything else in the writer is executed"""
    o.summarize_raw(r"<impl Write as (std::fmt::)?Write>::write_(char|str|fmt)$", lambda ex, st, a: (st, OKR()))
    o.summarize_raw(r"^<String as (std::fmt::)?Write>::write_(char|str|fmt)$", lambda ex, st, a: (st, OKR()))
    o.summarize_raw(r"^(core::fmt::rt::)?Argument::<'_>::new_(display|debug)::<", lambda ex, st, a: (st, OpaqueV("fmt argument")))
    o.summarize_raw(r"^(std::fmt::|core::fmt::)?Arguments::<'_>::new(_const)?::<", lambda ex, st, a: (st, OpaqueV("fmt arguments")))


@obligation(prop="C15", tier="quick", timeout=900, probe="rfc3339_writer_ok",
            desc="the RFC 3339 writer behind to_rfc3339 / to_rfc3339_opts / %+ / serde (`write_rfc3339`, whose Err is turned into a panic by `.expect` in to_rfc3339*) returns Ok for EVERY wall-clock date-time (all years incl. 10000 and negative ones, leap seconds), EVERY offset and every documented SecondsFormat: no digit-pair helper is ever handed a value >= 100, no arithmetic overflows",
            bounds="all dates x all times of day (leap incl.) x all offsets in (-24h, 24h) x {Secs, Millis, Micros, Nanos, AutoSi} x use_z; the String sink (write_char / write_str / write_fmt) is a contract that returns Ok; NaiveDate::month()/day() through their range contract (decided by K:c01_*)",
            outside="the text produced (C10); SecondsFormat::__NonExhaustive (doc-hidden, documented to panic)")
def c15_m_rfc3339_writer_ok(o):
    writer_sink_contracts(o)

    def md_contract(lo, hi, nm):
        def f(ex, st, a):
            v = ex.fresh(nm)
            ex.side.append(z3.And(v >= lo, v <= hi))
            return st, IntV(v, "u32")
        return f
    # month()/day() go through the Mdf bit tables (BitOr of overlapping fields: Engine K's domain); their contract
    # "month in 1..=12, day in 1..=31" is what K:c01_ymd_valid_iff / c01_yo_valid_iff decide against the reference calendar
    o.summarize_raw(r"^<NaiveDate as Datelike>::month$", md_contract(1, 12, "month"))
    o.summarize_raw(r"^<NaiveDate as Datelike>::day$", md_contract(1, 31, "day"))
    y, d, date = c03.date_input(o, "")
    t, ts, tf = c07.time_input(o, "")
    off = o.input("off", "i32")
    o.require(z3.And(off.e > -DAY, off.e < DAY))
    sf = o.input("sf", "isize")
    o.require(z3.And(sf.e >= 0, sf.e <= 4))
    uzi = o.input("use_z", "u8")
    o.require(uzi.e <= 1)
    uz = BoolV(uzi.e == 1)
    ndt = Agg("struct", "NaiveDateTime", [date, t])
    fo = Agg("struct", "FixedOffset", [off])
    r = o.call("format::formatting::write_rfc3339", OpaqueV("String sink"), ndt, fo, EnumV("SecondsFormat", sf.e), uz, name="write")
    ok = r.disc == 0
    o.flat = [z3.If(ok, 1, 0)]
    o.no_panic()
    o.reachable("year_10000", y.e == 10000)
    o.reachable("negative_year", y.e < 0)
    o.reachable("leap_second", tf >= G)
    o.claim("writer_returns_ok", ok)


@obligation(prop="C15", tier="quick", timeout=900, features="std,serde", probe="serde_datetime_total", also=("C20",),
            desc="Serialize for DateTime<FixedOffset> (RFC 3339 string form): the Display adapter the serializer hands to collect_str formats EVERY UTC date-time at EVERY offset without panicking and returns Ok, including the first and last day where the wall clock lies in the headroom beyond MIN/MAX (finding F17 on the original tree: it used the panicking naive_local())",
            bounds="all dates x all times of day x all offsets in (-24h, 24h); the Formatter sink is a contract that returns Ok; write_rfc3339 executed (month()/day() through their range contract)",
            outside="the serializer framework (collect_str of the concrete Serializer), the text produced (C10)")
def c15_m_serde_datetime_total(o):
    contracts(o)
    writer_sink_contracts(o)
    o.summarize_raw(r"Formatter(::)?<'_>(::| as std::fmt::Write>::| as Write>::)write_(char|str|fmt)$", lambda ex, st, a: (st, OKR()))

    def md_contract(lo, hi, nm):
        def f(ex, st, a):
            v = ex.fresh(nm)
            ex.side.append(z3.And(v >= lo, v <= hi))
            return st, IntV(v, "u32")
        return f
    o.summarize_raw(r"^<NaiveDate as Datelike>::month$", md_contract(1, 12, "month"))
    o.summarize_raw(r"^<NaiveDate as Datelike>::day$", md_contract(1, 31, "day"))
    # write_rfc3339 is executed here (the generic contract of `contracts` is for the String instance only)
    o.ex.raw_summaries = [(rx, fn) for rx, fn in o.ex.raw_summaries if "write_rfc3339" not in rx]
    dt, y, d, ts, off = dt_input(o)
    wrapper = Agg("struct", "FormatIso8601", [o.ref(dt)])
    r = o.call_named(r"^datetime::serde::<impl at [^>]*>::serialize::<impl at [^>]*>::fmt$", o.ref(wrapper), OpaqueV("formatter"), name="fmt")
    ok = r.disc == 0
    o.flat = [z3.If(ok, 1, 0)]
    o.no_panic()
    o.reachable("headroom_after_max", z3.And(y.e == c03.MAXY, d.e == 365, ts + off.e >= DAY))
    o.reachable("headroom_before_min", z3.And(y.e == c03.MINY, d.e == 1, ts + off.e < 0))
    o.claim("display_returns_ok", ok)
