"""C15 — fallible operations fail by value: Engine-M part for DateTime<FixedOffset> entry points whose text/round
machinery is too large for Kani but whose panic edges are plain integer conditions.

The MIR of `DateTime::<Tz>::to_rfc3339_opts`, `to_rfc3339` and `impl DurationRound for DateTime<Tz>` is executed at
Tz = FixedOffset.  The formatting sink itself (String, write_rfc3339) and the generic rounding kernels are contracts that
return normally (they are covered by C10/C12 writer harnesses and by M:c17_m_duration_*); what is decided here is that
nothing *before* them can panic for any date-time and any offset: in particular the wall-clock view used."""
import os
import importlib.util
import z3
from api import obligation, opt_is_some, opt_payload
from symex import IntV, BoolV, Agg, EnumV, OpaqueV, State
from symex import ConstRef as symex_ConstRef
import api as _api

_saved = list(_api.REGISTRY)
_spec = importlib.util.spec_from_file_location("c03_shared_for_c15", os.path.join(os.path.dirname(__file__), "c03.py"))
c03 = importlib.util.module_from_spec(_spec)
_spec.loader.exec_module(c03)
_api.REGISTRY[:] = _saved
c07 = c03.c07
G = 1000000000
DAY = 86400


def dt_input(o):
    y, d, date = c03.date_input(o, "")
    t, ts, tf = c07.time_input(o, "")
    off = o.input("off", "i32")
    o.require(z3.And(off.e > -DAY, off.e < DAY))
    fo = Agg("struct", "FixedOffset", [off])
    return Agg("struct", "DateTime", [Agg("struct", "NaiveDateTime", [date, t]), fo]), y, d, ts, off


def contracts(o):
    o.set_tyenv(Tz="FixedOffset")
    o.summarize_raw(r"as Offset>::fix$", lambda ex, st, a: (st, ex.load(st, a[0])))
    o.summarize_raw(r"^String::with_capacity$", lambda ex, st, a: (st, OpaqueV("String")))
    o.summarize_raw(r"^write_rfc3339::<String>$", lambda ex, st, a: (st, EnumV("Result", 0, {0: [Agg("tuple", "()", [])]})))
    o.summarize_raw(r"^duration_(round|trunc|round_up)::<DateTime<", lambda ex, st, a: (st, EnumV("Result", 1, {1: [OpaqueV("rounding result")]})))
    o.summarize("naive::date::add_days", c03.sum_add_days)


@obligation(prop="C15", tier="quick", timeout=600, probe="rfc3339_total",
            desc="DateTime<FixedOffset>::to_rfc3339_opts and to_rfc3339 reach their writer without panicking for EVERY UTC date-time and EVERY offset, including the first and last day where the wall clock lies in the headroom beyond MIN/MAX (finding F7 on the original tree: to_rfc3339_opts unwrapped naive_local())",
            bounds="all dates x all times of day x all offsets in (-24h, 24h); String and write_rfc3339 are contracts that return normally; succ/pred day stepping executed from the MIR",
            outside="the text produced (C10/C12), allocation failure")
def c15_m_rfc3339_total(o):
    contracts(o)
    dt, y, d, ts, off = dt_input(o)
    sf = EnumV("SecondsFormat", 0)
    o.call("DateTime::<FixedOffset>::to_rfc3339_opts", o.ref(dt), sf, BoolV(True), name="opts")
    o.call("DateTime::<FixedOffset>::to_rfc3339", o.ref(dt), name="plain")
    o.flat = [z3.IntVal(1)]
    o.no_panic()
    o.reachable("headroom_after_max", z3.And(y.e == c03.MAXY, d.e == 365, ts + off.e >= DAY))
    o.reachable("headroom_before_min", z3.And(y.e == c03.MINY, d.e == 1, ts + off.e < 0))


@obligation(prop="C15", tier="quick", timeout=600, probe="round_total",
            desc="DurationRound for DateTime<FixedOffset> (duration_round / duration_trunc / duration_round_up) reaches the rounding kernel without panicking for every UTC date-time and every offset (finding F6 on the original tree: naive_local() panicked in the headroom day before the range check could return Err)",
            bounds="all dates x all times of day x all offsets in (-24h, 24h); the generic kernels duration_* are contracts (decided by M:c17_m_duration_*)")
def c15_m_round_total(o):
    contracts(o)
    dt, y, d, ts, off = dt_input(o)
    td = Agg("struct", "TimeDelta", [IntV(1, "i64"), IntV(0, "i32")])
    for fn in ("duration_round", "duration_trunc", "duration_round_up"):
        o.call(f"<DateTime<FixedOffset> as DurationRound>::{fn}", dt, td, name=fn)
    o.flat = [z3.IntVal(1)]
    o.no_panic()
    o.reachable("headroom_after_max", z3.And(y.e == c03.MAXY, d.e == 365, ts + off.e >= DAY))


@obligation(prop="C04", tier="quick", timeout=600, probe="display_total",
            desc="Display and Debug of DateTime<FixedOffset> format the wall-clock reading obtained without panicking for EVERY UTC date-time and EVERY offset, including the headroom day beyond MIN/MAX at the range ends (they must use the non-panicking wall-clock view)",
            bounds="all dates x all times of day x all offsets in (-24h, 24h); the NaiveDateTime / FixedOffset formatters themselves are contracts that return normally")
def c04_m_display_total(o):
    contracts(o)
    o.summarize_raw(r"^<NaiveDateTime as (std::fmt::)?(Display|Debug)>::fmt$", lambda ex, st, a: (st, EnumV("Result", 0, {0: [Agg("tuple", "()", [])]})))
    o.summarize_raw(r"^<(<Tz as TimeZone>::Offset|FixedOffset|<FixedOffset as TimeZone>::Offset) as (std::fmt::)?(Display|Debug)>::fmt$", lambda ex, st, a: (st, EnumV("Result", 0, {0: [Agg("tuple", "()", [])]})))
    o.summarize_raw(r"Formatter(::)?<'_>(::| as std::fmt::Write>::| as Write>::)write_(char|str)$", lambda ex, st, a: (st, EnumV("Result", 0, {0: [Agg("tuple", "()", [])]})))
    dt, y, d, ts, off = dt_input(o)
    f = OpaqueV("formatter")
    o.call("<DateTime<FixedOffset> as Display>::fmt", o.ref(dt), f, name="display")
    o.call("<DateTime<FixedOffset> as Debug>::fmt", o.ref(dt), f, name="debug")
    o.flat = [z3.IntVal(1)]
    o.no_panic()
    o.reachable("headroom_after_max", z3.And(y.e == c03.MAXY, d.e == 365, ts + off.e >= DAY))


@obligation(prop="C15", tier="quick", timeout=900, probe="with_time_range",
            desc="DateTime<FixedOffset>::with_time never builds an out-of-range value: whenever it returns Single(dt), the stored UTC reading of dt lies on a representable date (year in [-262143, 262142]) -- also when the wall clock of the receiver lies in the headroom day beyond MIN/MAX; and it never panics",
            bounds="all UTC date-times x all offsets in (-24h, 24h) x all replacement times of day",
            outside="Local and other zones with gaps/folds (only FixedOffset is instantiated)")
def c15_m_with_time_in_range(o):
    contracts(o)
    dt, y, d, ts, off = dt_input(o)
    t2, ts2, tf2 = c07.time_input(o, "n")
    r = o.call("DateTime::<FixedOffset>::with_time", o.ref(dt), t2, name="with_time")
    # MappedLocalTime: Single = 0, Ambiguous = 1, None = 2 (declaration order)
    single = r.disc == 0
    res = r.payload[0][0]
    yof = res.fields[0].fields[0].fields[0].e
    Yr = z3.Int("Ywt")
    Or_, Fr = z3.Int("Owt"), z3.Int("Fwt")
    o.require(z3.And(yof == Yr * 8192 + Or_ * 16 + Fr, Fr >= 0, Fr < 16, Or_ >= 0, Or_ < 512))
    o.flat = [z3.If(single, 1, 0), z3.If(single, Yr, 0)]
    o.no_panic()
    o.reachable("headroom_receiver", z3.And(y.e == c03.MAXY, d.e == 365, ts + off.e >= DAY))
    o.reachable("single", single)
    o.claim("single_result_is_in_range", z3.Implies(single, z3.And(Yr >= c03.MINY, Yr <= c03.MAXY)))


OKR = lambda: EnumV("Result", 0, {0: [Agg("tuple", "()", [])]})


def writer_sink_contracts(o):
    """the `impl fmt::Write` sink is a String: pushing text cannot fail; everything else in the writer is executed"""
    o.summarize_raw(r"<impl Write as (std::fmt::)?Write>::write_(char|str|fmt)$", lambda ex, st, a: (st, OKR()))
    o.summarize_raw(r"^<String as (std::fmt::)?Write>::write_(char|str|fmt)$", lambda ex, st, a: (st, OKR()))
    o.summarize_raw(r"^(core::fmt::rt::)?Argument::<'_>::new_(display|debug)::<", lambda ex, st, a: (st, OpaqueV("fmt argument")))
    o.summarize_raw(r"^(std::fmt::|core::fmt::)?Arguments::<'_>::new(_const)?::<", lambda ex, st, a: (st, OpaqueV("fmt arguments")))


@obligation(prop="C15", tier="quick", timeout=900, probe="rfc3339_writer_ok",
            desc="the RFC 3339 writer behind to_rfc3339 / to_rfc3339_opts / %+ / serde (`write_rfc3339`, whose Err is turned into a panic by `.expect` in to_rfc3339*) returns Ok for EVERY wall-clock date-time (all years incl. 10000 and negative ones, leap seconds), EVERY offset and every documented SecondsFormat: no digit-pair helper is ever handed a value >= 100, no arithmetic overflows",
            bounds="all dates x all times of day (leap incl.) x all offsets in (-24h, 24h) x {Secs, Millis, Micros, Nanos, AutoSi} x use_z; the String sink (write_char / write_str / write_fmt) is a contract that returns Ok; NaiveDate::month()/day() through their range contract (decided by K:c01_*)",
            outside="the text produced (C10); SecondsFormat::__NonExhaustive (doc-hidden, documented to panic)")
def c15_m_rfc3339_writer_ok(o):
    writer_sink_contracts(o)

    def md_contract(lo, hi, nm):
        def f(ex, st, a):
            v = ex.fresh(nm)
            ex.side.append(z3.And(v >= lo, v <= hi))
            return st, IntV(v, "u32")
        return f
    # month()/day() go through the Mdf bit tables (BitOr of overlapping fields: Engine K's domain); their contract
    # "month in 1..=12, day in 1..=31" is what K:c01_ymd_valid_iff / c01_yo_valid_iff decide against the reference calendar
    o.summarize_raw(r"^<NaiveDate as Datelike>::month$", md_contract(1, 12, "month"))
    o.summarize_raw(r"^<NaiveDate as Datelike>::day$", md_contract(1, 31, "day"))
    y, d, date = c03.date_input(o, "")
    t, ts, tf = c07.time_input(o, "")
    off = o.input("off", "i32")
    o.require(z3.And(off.e > -DAY, off.e < DAY))
    sf = o.input("sf", "isize")
    o.require(z3.And(sf.e >= 0, sf.e <= 4))
    uzi = o.input("use_z", "u8")
    o.require(uzi.e <= 1)
    uz = BoolV(uzi.e == 1)
    ndt = Agg("struct", "NaiveDateTime", [date, t])
    fo = Agg("struct", "FixedOffset", [off])
    r = o.call("format::formatting::write_rfc3339", OpaqueV("String sink"), ndt, fo, EnumV("SecondsFormat", sf.e), uz, name="write")
    ok = r.disc == 0
    o.flat = [z3.If(ok, 1, 0)]
    o.no_panic()
    o.reachable("year_10000", y.e == 10000)
    o.reachable("negative_year", y.e < 0)
    o.reachable("leap_second", tf >= G)
    o.claim("writer_returns_ok", ok)


@obligation(prop="C15", tier="quick", timeout=900, features="std,serde", probe="serde_datetime_total", also=("C20",),
            desc="Serialize for DateTime<FixedOffset> (RFC 3339 string form): the Display adapter the serializer hands to collect_str formats EVERY UTC date-time at EVERY offset without panicking and returns Ok, including the first and last day where the wall clock lies in the headroom beyond MIN/MAX (finding F17 on the original tree: it used the panicking naive_local())",
            bounds="all dates x all times of day x all offsets in (-24h, 24h); the Formatter sink is a contract that returns Ok; write_rfc3339 executed (month()/day() through their range contract)",
            outside="the serializer framework (collect_str of the concrete Serializer), the text produced (C10)")
def c15_m_serde_datetime_total(o):
    contracts(o)
    writer_sink_contracts(o)
    o.summarize_raw(r"Formatter(::)?<'_>(::| as std::fmt::Write>::| as Write>::)write_(char|str|fmt)$", lambda ex, st, a: (st, OKR()))

    def md_contract(lo, hi, nm):
        def f(ex, st, a):
            v = ex.fresh(nm)
            ex.side.append(z3.And(v >= lo, v <= hi))
            return st, IntV(v, "u32")
        return f
    o.summarize_raw(r"^<NaiveDate as Datelike>::month$", md_contract(1, 12, "month"))
    o.summarize_raw(r"^<NaiveDate as Datelike>::day$", md_contract(1, 31, "day"))
    # write_rfc3339 is executed here (the generic contract of `contracts` is for the String instance only)
    o.ex.raw_summaries = [(rx, fn) for rx, fn in o.ex.raw_summaries if "write_rfc3339" not in rx]
    dt, y, d, ts, off = dt_input(o)
    wrapper = Agg("struct", "FormatIso8601", [o.ref(dt)])
    r = o.call_named(r"^datetime::serde::<impl at [^>]*>::serialize::<impl at [^>]*>::fmt$", o.ref(wrapper), OpaqueV("formatter"), name="fmt")
    ok = r.disc == 0
    o.flat = [z3.If(ok, 1, 0)]
    o.no_panic()
    o.reachable("headroom_after_max", z3.And(y.e == c03.MAXY, d.e == 365, ts + off.e >= DAY))
    o.reachable("headroom_before_min", z3.And(y.e == c03.MINY, d.e == 1, ts + off.e < 0))
    o.claim("display_returns_ok", ok)


# ---- C10 / C11: the FIELDS the RFC 3339 / RFC 2822 writers print, without the text ------------------------------------
# The sink is abstracted, but every value handed to it is recorded together with the path condition of the call site
# (`write_hundreds(w, n)`: n; the display argument of each fraction `write!`; the table entry handed to `write_str`).
# The claims then say WHICH number is printed in which position -- the digit rendering of those numbers is Engine K's
# part (c10_writer_*, c11_writer_*, c12_*).

def recording_sink(o):
    rec = {"hundreds": [], "display": [], "str": []}

    def hundreds(ex, st, a):
        n = a[1]
        rec["hundreds"].append((st.pc, n.e))
        return st, EnumV("Result", z3.If(n.e >= 100, 1, 0), {0: [Agg("tuple", "()", [])], 1: [Agg("struct", "fmt::Error", [])]})

    def display(ex, st, a):
        v = ex.load(st, a[0])
        if isinstance(v, IntV):
            rec["display"].append((st.pc, v.e, v.ty))
        return st, OpaqueV("fmt argument")

    def wstr(ex, st, a):
        v = a[1]
        if isinstance(v, (IntV,)):
            rec["str"].append((st.pc, v.e))
        return st, OKR()

    o.summarize_raw(r"^write_hundreds::<impl Write>$", hundreds)
    o.summarize_raw(r"^(core::fmt::rt::)?Argument::<'_>::new_display::<", display)
    o.summarize_raw(r"<impl Write as (std::fmt::)?Write>::write_str$", wstr)
    o.summarize_raw(r"<impl Write as (std::fmt::)?Write>::write_(char|fmt)$", lambda ex, st, a: (st, OKR()))
    o.summarize_raw(r"^(std::fmt::|core::fmt::)?Arguments::<'_>::new(_const)?::<", lambda ex, st, a: (st, OpaqueV("fmt arguments")))
    o.summarize_raw(r"^formatting::<impl OffsetFormat>::format::<impl Write>$", lambda ex, st, a: (st, OKR()))
    return rec


def fresh_contract(o, lo, hi, nm, store):
    def f(ex, st, a):
        v = ex.fresh(nm)
        ex.side.append(z3.And(v >= lo, v <= hi))
        store.append(v)
        return st, IntV(v, "u32")
    return f


@obligation(prop="C10", tier="quick", timeout=900, probe="rfc3339_fields",
            desc="RFC 3339 writer, the fields it prints (text abstracted): for every wall-clock date-time with year 0..=9999 the seven two-digit groups are year/100, year%100, month(), day(), hour, minute and second + 1 for a leap second (second 60), in that order; each fraction `write!` is handed exactly the fraction scaled to its unit (ms / us / ns, leap offset removed), and AutoSi picks the coarsest unit that loses nothing and prints no fraction exactly when it is zero",
            bounds="all dates with year 0..=9999 x all times of day (leap incl.) x all offsets x {Secs, Millis, Micros, Nanos, AutoSi}; the sink is abstract (values handed to it are recorded); month()/day() are the accessor values (K:c01_* ties them to the calendar); the offset writer is abstracted (K:c10_writer_offset_part, c12_offset_*)",
            outside="digit rendering of the recorded numbers (Engine K), years outside 0..=9999 (signed form), the reader")
def c10_m_rfc3339_fields(o):
    rec = recording_sink(o)
    months, days = [], []
    o.summarize_raw(r"^<NaiveDate as Datelike>::month$", fresh_contract(o, 1, 12, "month", months))
    o.summarize_raw(r"^<NaiveDate as Datelike>::day$", fresh_contract(o, 1, 31, "day", days))
    y, d, date = c03.date_input(o, "")
    o.require(z3.And(y.e >= 0, y.e <= 9999))
    t, ts, tf = c07.time_input(o, "")
    off = o.input("off", "i32")
    o.require(z3.And(off.e > -DAY, off.e < DAY))
    sf = o.input("sf", "isize")
    o.require(z3.And(sf.e >= 0, sf.e <= 4))
    uzi = o.input("use_z", "u8")
    o.require(uzi.e <= 1)
    ndt = Agg("struct", "NaiveDateTime", [date, t])
    r = o.call("format::formatting::write_rfc3339", OpaqueV("sink"), ndt, Agg("struct", "FixedOffset", [off]), EnumV("SecondsFormat", sf.e), BoolV(uzi.e == 1), name="write")
    ok = r.disc == 0
    H = rec["hundreds"]
    if len(H) != 7 or len(months) != 1 or len(days) != 1:
        raise _api.Unsupported(f"writer shape changed: {len(H)} write_hundreds call sites (7 expected)")
    leap = tf >= G
    nano = z3.If(leap, tf - G, tf)
    want = [y.e / 100, y.e % 100, months[0], days[0], ts / 3600, ts / 60 % 60, ts % 60 + z3.If(leap, 1, 0)]

    D = [x for x in rec["display"] if x[2] == "u32"]
    if len(D) != 6:
        raise _api.Unsupported(f"writer shape changed: {len(D)} fraction write! sites (6 expected)")
    # which unit a site prints is read off its value term (evaluated at a sample fraction), not off the site order
    tfv = [v for (n_, t_, v) in o.inputs if n_ == "tf"][0]
    unit = {}
    for i, (pc, v, _) in enumerate(D):
        sample = z3.simplify(z3.substitute(v, (tfv, z3.IntVal(123456789))))
        if not z3.is_int_value(sample) or sample.as_long() not in (123, 123456, 123456789):
            raise _api.Unsupported(f"fraction site {i}: value term is not a scaled fraction ({sample})")
        unit[i] = {123: 1000000, 123456: 1000, 123456789: 1}[sample.as_long()]
    A = {sc: z3.Or(*[D[i][0] for i in unit if unit[i] == sc]) for sc in (1000000, 1000, 1)}
    digits = {1000000: 3, 1000: 6, 1: 9}
    frac_val = z3.Sum(*[z3.If(D[i][0], D[i][1], 0) for i in unit])
    def printed_width(v, nd):
        # `{:0nd}` prints at least nd digits, more when the value does not fit (that would be a defect; it must be visible)
        e = z3.IntVal(nd)
        for k in range(nd, 11):
            e = z3.If(v >= 10 ** k, k + 1, e)
        return e
    frac_dig = z3.Sum(*[z3.If(D[i][0], printed_width(D[i][1], digits[unit[i]]), 0) for i in unit])
    # observable output vector (the probe parses the same numbers out of the real text): ok, year pairs, clock groups,
    # fraction value and digit count
    o.flat = [z3.If(ok, 1, 0), H[0][1], H[1][1], H[4][1], H[5][1], H[6][1], frac_val, frac_dig]
    o.no_panic()
    o.reachable("leap_second_whole", z3.And(tf == G, ts % 60 == 59))
    o.claim("always_ok", ok)
    o.claim("two_digit_groups_are_the_wall_clock_fields", z3.And(*[z3.And(pc, n == w) for (pc, n), w in zip(H, want)]))
    o.claim("fraction_value_is_exact_in_its_unit", z3.And(*[z3.Implies(D[i][0], D[i][1] == nano / unit[i]) for i in unit]))
    none = z3.Not(z3.Or(*A.values()))
    only = lambda sc: z3.And(A[sc], *[z3.Not(A[x]) for x in A if x != sc])
    o.claim("fixed_precisions_print_their_unit", z3.And(z3.Implies(sf.e == 0, none), z3.Implies(sf.e == 1, only(1000000)), z3.Implies(sf.e == 2, only(1000)), z3.Implies(sf.e == 3, only(1))))
    o.claim("autosi_picks_the_coarsest_exact_unit", z3.Implies(sf.e == 4, z3.And(
        A[1000000] == z3.And(nano != 0, nano % 1000000 == 0),
        A[1000] == z3.And(nano % 1000000 != 0, nano % 1000 == 0),
        A[1] == (nano % 1000 != 0))))


@obligation(prop="C11", tier="quick", timeout=900, probe="rfc2822_writer_ok",
            desc="RFC 2822 writer, the fields it prints (text abstracted): Err exactly for years outside 0..=9999; otherwise the weekday name is the entry for the date's weekday counted from Sunday (day number mod 7), the day is day() (one digit below 10), the month name is the entry month0(), then year/100, year%100, hour, minute and second + 1 for a leap second (second 60)",
            bounds="all dates x all times of day (leap incl.) x all offsets; the sink is abstract (values handed to it are recorded); the name tables are replaced by index tables; weekday() through its contract (M:c01_m_weekday); day()/month0() are the accessor values; the offset writer is abstracted (K:c11_writer_time_part)",
            outside="digit and name rendering (Engine K: c11_writer_*), the reader")
def c11_m_rfc2822_fields(o):
    rec = recording_sink(o)
    days, m0s = [], []
    o.summarize_raw(r"^<NaiveDate as Datelike>::day$", fresh_contract(o, 1, 31, "day", days))
    o.summarize_raw(r"^<NaiveDate as Datelike>::month0$", fresh_contract(o, 0, 11, "month0", m0s))
    o.summarize("naive::date::weekday", c03.sum_weekday)
    table = lambda base, n: (lambda ex, st, a: (st, symex_ConstRef(Agg("array", "names", [IntV(base + i, "u32") for i in range(n)]))))
    o.summarize_raw(r"(^|::)short_weekdays$", table(0, 7))
    o.summarize_raw(r"(^|::)short_months$", table(100, 12))
    o.summarize_raw(r"(^|::)default_locale$", lambda ex, st, a: (st, OpaqueV("locale")))
    o.ex.const_overrides["unlocalized::Locale"] = OpaqueV("locale")
    o.ex.const_overrides["Locale"] = OpaqueV("locale")
    y, d, date = c03.date_input(o, "")
    t, ts, tf = c07.time_input(o, "")
    off = o.input("off", "i32")
    o.require(z3.And(off.e > -DAY, off.e < DAY))
    ndt = Agg("struct", "NaiveDateTime", [date, t])
    r = o.call("format::formatting::write_rfc2822", OpaqueV("sink"), ndt, Agg("struct", "FixedOffset", [off]), name="write")
    ok = r.disc == 0
    o.flat = [z3.If(ok, 1, 0)]
    o.no_panic()
    H, S = rec["hundreds"], rec["str"]
    if len(H) != 6 or len(S) != 2 or len(days) != 1 or len(m0s) != 1:
        raise _api.Unsupported(f"writer shape changed: {len(H)} write_hundreds sites, {len(S)} table write_str sites")
    leap = tf >= G
    o.reachable("leap_second_whole", z3.And(tf == G, ts % 60 == 59, ok))
    o.reachable("year_out_of_range", z3.Not(ok))
    o.claim("ok_iff_year_0_to_9999", ok == z3.And(y.e >= 0, y.e <= 9999))
    o.claim("weekday_and_month_names", z3.Implies(ok, z3.And(S[0][0], S[0][1] == c03.dayno(y.e, d.e) % 7, S[1][0], S[1][1] == 100 + m0s[0])))
    o.claim("day_group", z3.Implies(ok, z3.And(H[0][0] == (days[0] >= 10), z3.Implies(H[0][0], H[0][1] == days[0]))))
    want = [y.e / 100, y.e % 100, ts / 3600, ts / 60 % 60, ts % 60 + z3.If(leap, 1, 0)]
    o.claim("two_digit_groups_are_the_wall_clock_fields", z3.Implies(ok, z3.And(*[z3.And(pc, n == w) for (pc, n), w in zip(H[1:], want)])))


@obligation(prop="C12", tier="quick", timeout=600, probe="year_item", also=("C13",),
            desc="%Y / %G and %C writers, the values they print (text abstracted): write_year takes its two-digit-pair fast path only for four-digit years (where padding cannot matter) and otherwise hands the year to the padded integer writer with width 4 and a sign that is mandatory exactly outside 0..=9999 (so that the reader can tell +10000 from 1000 followed by 0); write_century prints a digit pair for centuries 0..=99 and otherwise the plain integer (no forced sign)",
            bounds="all i32 years / centuries x {None, Zero, Space}; the sink and the padded integer writer write_n are abstract (their arguments are recorded)",
            outside="digit rendering (Engine K: c12_year, c12_year_small, c12_century)")
def c12_m_year_items(o):
    rec = recording_sink(o)
    wn = []

    def write_n(ex, st, a):
        wn.append((st.pc, a[1].e, a[2].e, a[4].e))
        return st, OKR()
    o.summarize_raw(r"(^|::)write_n::<impl Write>$", write_n)
    two = []
    o.summarize_raw(r"(^|::)write_two::<impl Write>$", lambda ex, st, a: (two.append((st.pc, a[1].e)), (st, OKR()))[1])
    y = o.input("year", "i32")
    c = o.input("century", "i32")
    pad = o.input("pad", "isize")
    o.require(z3.And(pad.e >= 0, pad.e <= 2))
    r = o.call("write_year", OpaqueV("sink"), y, EnumV("Pad", pad.e), name="year")
    r2 = o.call("write_century", OpaqueV("sink"), c, EnumV("Pad", pad.e), name="century")
    o.flat = [z3.If(r.disc == 0, 1, 0), z3.If(r2.disc == 0, 1, 0)]
    o.no_panic()
    H = rec["hundreds"]
    if len(H) != 2 or len(wn) != 2 or len(two) != 1:
        raise _api.Unsupported(f"writer shape changed: {len(H)} write_hundreds, {len(wn)} write_n, {len(two)} write_two sites")
    small = z3.And(y.e >= 1000, y.e <= 9999)
    o.reachable("year_10000", y.e == 10000)
    o.claim("both_ok", z3.And(r.disc == 0, r2.disc == 0))
    # the two-pair fast path may only be taken where it prints the same as the padded writer: years with four digits
    o.claim("fast_path_only_for_four_digit_years", z3.And(z3.Implies(H[0][0], small), z3.Implies(H[0][0], z3.And(H[1][0], H[0][1] == y.e / 100, H[1][1] == y.e % 100))))
    o.claim("other_years_padded_width_4_sign_iff_outside_0_9999", z3.And(z3.Or(H[0][0], wn[0][0]), z3.Implies(wn[0][0], z3.And(wn[0][1] == 4, wn[0][2] == y.e, wn[0][3] == z3.Or(y.e < 0, y.e > 9999)))))
    cs = z3.And(c.e >= 0, c.e <= 99)
    o.claim("century_pair_or_plain_integer", z3.And(two[0][0] == cs, z3.Implies(cs, two[0][1] == c.e), wn[1][0] == z3.Not(cs),
                                                   z3.Implies(z3.Not(cs), z3.And(wn[1][1] == 2, wn[1][2] == c.e, z3.Not(wn[1][3])))))


@obligation(prop="C09", tier="quick", timeout=600, probe="time_debug_ok",
            desc="Debug / Display of NaiveTime (the default text form of times, also inside NaiveDateTime and DateTime), the values it prints (text abstracted): hour, minute and second + 1 for a leap second as digit pairs; no fraction exactly when it is zero, else the fraction without the leap offset in the coarsest of ms / us / ns that loses nothing -- which is what the FromStr side reads back as the same fraction",
            bounds="all times of day incl. the leap representation on any second; the Formatter sink is abstract (values handed to it are recorded)",
            outside="digit rendering (Engine K), the reader (K: c09_*, c13_items_hms)")
def c09_m_time_debug_fields(o):
    rec = recording_sink(o)
    o.summarize_raw(r"^write_hundreds::<Formatter<'_>>$", [fn for rx, fn in o.ex.raw_summaries if "write_hundreds" in rx][0])
    o.summarize_raw(r"Formatter(::)?<'_>(::| as std::fmt::Write>::| as Write>::)write_(char|str|fmt)$", lambda ex, st, a: (st, OKR()))
    t, ts, tf = c07.time_input(o, "")
    r = o.call("<NaiveTime as Debug>::fmt", o.ref(t), OpaqueV("formatter"), name="debug")
    ok = r.disc == 0
    o.flat = [z3.If(ok, 1, 0)]
    o.no_panic()
    H = rec["hundreds"]
    D = [x for x in rec["display"] if x[2] == "u32"]
    if len(H) != 3 or len(D) != 3:
        raise _api.Unsupported(f"writer shape changed: {len(H)} write_hundreds sites, {len(D)} fraction sites")
    leap = tf >= G
    nano = z3.If(leap, tf - G, tf)
    o.reachable("leap_with_microseconds", z3.And(leap, nano % 1000 == 0, nano % 1000000 != 0))
    o.claim("always_ok", ok)
    o.claim("clock_groups", z3.And(*[z3.And(pc, n == w) for (pc, n), w in zip(H, [ts / 3600, ts / 60 % 60, ts % 60 + z3.If(leap, 1, 0)])]))
    o.claim("fraction_is_exact_and_coarsest", z3.And(
        D[0][0] == z3.And(nano != 0, nano % 1000000 == 0), z3.Implies(D[0][0], D[0][1] * 1000000 == nano),
        D[1][0] == z3.And(nano % 1000000 != 0, nano % 1000 == 0), z3.Implies(D[1][0], D[1][1] * 1000 == nano),
        D[2][0] == (nano % 1000 != 0), z3.Implies(D[2][0], D[2][1] == nano)))


@obligation(prop="C09", tier="quick", timeout=600, probe="offset_debug_ok",
            desc="Debug / Display of FixedOffset (the default text form of offsets, also at the end of every DateTime), the values it prints (text abstracted): the sign character is '-' exactly for negative offsets (also those between -01:00 and 00:00), then |offset| / 3600, |offset| / 60 mod 60, and the seconds |offset| mod 60 exactly when they are non-zero -- which is what the FromStr side reads back as the same offset",
            bounds="all offsets in (-24h, 24h) at one-second resolution; the Formatter sink is abstract (the arguments of the two write! sites are recorded)",
            outside="digit rendering (core::fmt), the reader (K: c09_offset_weekday_month in the thorough tier)")
def c09_m_offset_debug_fields(o):
    rec = recording_sink(o)
    o.summarize_raw(r"Formatter(::)?<'_>(::| as std::fmt::Write>::| as Write>::)write_(char|str|fmt)$", lambda ex, st, a: (st, OKR()))
    off = o.input("off", "i32")
    o.require(z3.And(off.e > -DAY, off.e < DAY))
    r = o.call("<FixedOffset as Debug>::fmt", o.ref(Agg("struct", "FixedOffset", [off])), OpaqueV("formatter"), name="debug")
    ok = r.disc == 0
    D = rec["display"]
    # the two write! sites hand over (sign, hour, minute) and (sign, hour, minute, second): split at the sign arguments
    starts = [i for i, x in enumerate(D) if x[2] == "u32"]
    sites = [D[a:b] for a, b in zip(starts, starts[1:] + [len(D)])]
    if sorted(len(x) for x in sites) != [3, 4]:
        raise _api.Unsupported(f"writer shape changed: write! argument groups {[len(x) for x in sites]}")
    a = z3.If(off.e < 0, -off.e, off.e)
    want = [z3.If(off.e < 0, ord("-"), ord("+")), a / 3600, a / 60 % 60, a % 60]
    short = [x for x in sites if len(x) == 3][0]
    full = [x for x in sites if len(x) == 4][0]
    sel = lambda i: z3.If(short[0][0], short[i][1] if i < 3 else 0, full[i][1])
    o.flat = [z3.If(ok, 1, 0), z3.If(sel(0) == ord("-"), 1, 0), sel(1), sel(2), sel(3)]
    o.no_panic()
    o.reachable("between_minus_one_hour_and_zero", z3.And(off.e < 0, off.e > -3600))
    o.claim("always_ok", ok)
    o.claim("seconds_printed_iff_non_zero", z3.And(short[0][0] == (a % 60 == 0), full[0][0] == (a % 60 != 0)))
    o.claim("sign_hours_minutes_seconds", z3.And(*[z3.Implies(site[0][0], z3.And(*[x[1] == w for x, w in zip(site, want)])) for site in (short, full)]))


@obligation(prop="C09", tier="quick", timeout=600, probe="date_debug_ok",
            desc="Debug / Display of NaiveDate (the default text form of dates), the values it prints (text abstracted): for years 0..=9999 the digit pairs year/100 and year%100, otherwise the year itself through the signed width-5 integer format (ISO 8601 explicit sign, so +10000 cannot be confused with 1000 followed by 0); then the month and the day of the date's month/day decomposition as digit pairs",
            bounds="all dates; the Formatter sink is abstract (values handed to it are recorded); Mdf month()/day() are contract values in 1..=12 / 1..=31 (K:c01_* ties them to the calendar)",
            outside="digit rendering (core::fmt, write_hundreds), the reader (K: c09_date_y4 in the thorough tier)")
def c09_m_date_debug_fields(o):
    rec = recording_sink(o)
    o.summarize_raw(r"^write_hundreds::<Formatter<'_>>$", [fn for rx, fn in o.ex.raw_summaries if "write_hundreds" in rx][0])
    o.summarize_raw(r"Formatter(::)?<'_>(::| as std::fmt::Write>::| as Write>::)write_(char|str|fmt)$", lambda ex, st, a: (st, OKR()))
    ms, ds = [], []
    o.summarize_raw(r"^NaiveDate::mdf$", lambda ex, st, a: (st, Agg("struct", "Mdf", [OpaqueV("mdf bits")])))
    o.summarize_raw(r"^(naive::internals::)?Mdf::month$", fresh_contract(o, 1, 12, "month", ms))
    o.summarize_raw(r"^(naive::internals::)?Mdf::day$", fresh_contract(o, 1, 31, "day", ds))
    y, d, date = c03.date_input(o, "")
    r = o.call("<NaiveDate as Debug>::fmt", o.ref(date), OpaqueV("formatter"), name="debug")
    ok = r.disc == 0
    o.flat = [z3.If(ok, 1, 0)]
    o.no_panic()
    H = rec["hundreds"]
    Dy = [x for x in rec["display"] if x[2] == "i32"]
    if len(H) != 4 or len(Dy) != 1 or len(ms) != 1 or len(ds) != 1:
        raise _api.Unsupported(f"writer shape changed: {len(H)} write_hundreds sites, {len(Dy)} signed-year sites")
    small = z3.And(y.e >= 0, y.e <= 9999)
    o.reachable("year_10000", y.e == 10000)
    o.reachable("negative_year", y.e < 0)
    o.claim("always_ok", ok)
    o.claim("year_as_pairs_iff_0_to_9999", z3.And(H[0][0] == small, H[1][0] == small, z3.Implies(small, z3.And(H[0][1] == y.e / 100, H[1][1] == y.e % 100)),
                                                Dy[0][0] == z3.Not(small), z3.Implies(z3.Not(small), Dy[0][1] == y.e)))
    o.claim("month_and_day_pairs", z3.And(H[2][0], H[2][1] == ms[0], H[3][0], H[3][1] == ds[0]))
