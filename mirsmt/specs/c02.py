"""C02 — Unix timestamps <-> UTC date-times (full i64 domains).

Composition: the day-number <-> date kernels are used through their contracts, which are proved over the full
domain by M:c01_m_from_daynum and M:c01_m_daynum_of_date (property C01); everything else (Euclidean split of the
count, epoch shift, range checks, time-of-day validity, sub-second scaling, the negative-overflow workaround of
timestamp_nanos_opt) is executed from the MIR of the current tree."""
import z3
from api import obligation, opt_is_some, opt_payload
from symex import IntV, Agg, EnumV, State

G = 1000000000
DAY = 86400
MINY, MAXY = -262143, 262142
EPOCH = 719163


def is_leap(y):
    return z3.Or(z3.And(y % 4 == 0, y % 100 != 0), y % 400 == 0)


def dayno(y, o):
    p = y - 1
    return 365 * p + p / 4 - p / 100 + p / 400 + o


LO = -95746129   # dayno(MINY, 1)
HI = 95745399    # dayno(MAXY, 365)


def sum_from_daynum(ex, st, args):
    """contract of NaiveDate::from_num_days_from_ce_opt proved by M:c01_m_from_daynum:
    Some exactly for LO <= n <= HI, and then a valid (year, ordinal) with reference day number n.
    The constraint on the fresh date is conditional on the Some case (nothing is assumed about inputs)."""
    n = args[0].e
    Y, O, F = ex.fresh("Y"), ex.fresh("O"), ex.fresh("F")
    yof = ex.fresh("yof")
    ok = z3.And(n >= LO, n <= HI)
    ex.side.append(z3.Implies(ok, z3.And(yof == Y * 8192 + O * 16 + F, F >= 1, F < 16, O >= 1, O <= z3.If(is_leap(Y), 366, 365),
                                         Y >= MINY, Y <= MAXY, dayno(Y, O) == n)))
    date = Agg("struct", "NaiveDate", [IntV(yof, "i32")])
    return st, EnumV("Option", z3.If(ok, 1, 0), {1: [date]})


def sum_daynum_of(ex, st, args):
    """contract of NaiveDate::num_days_from_ce proved by M:c01_m_daynum_of_date"""
    d = ex.load(st, args[0])
    yof = d.fields[0].e
    Y, O, F = ex.fresh("Yd"), ex.fresh("Od"), ex.fresh("Fd")
    ex.side.append(z3.And(yof == Y * 8192 + O * 16 + F, F >= 0, F < 16, O >= 0, O < 512))
    return st, IntV(dayno(Y, O), "i32")


def use_contracts(o):
    o.summarize("naive::date::from_num_days_from_ce_opt", sum_from_daynum)
    o.summarize("naive::date::num_days_from_ce", sum_daynum_of)


def dt_parts(dt):
    ndt = dt.fields[0]
    date, time = ndt.fields[0], ndt.fields[1]
    return date.fields[0].e, time.fields[0].e, time.fields[1].e


def decode(o, yof, tag):
    Y, O, F = z3.Int("Y" + tag), z3.Int("O" + tag), z3.Int("F" + tag)
    o.require(z3.And(yof == Y * 8192 + O * 16 + F, F >= 0, F < 16, O >= 0, O < 512))
    return Y, O


def valid_ns(secs, ns):
    return z3.Or(ns < G, z3.And(ns < 2 * G, secs % 60 == 59))


@obligation(prop="C02", tier="quick", timeout=900, probe="from_timestamp",
            desc="DateTime::from_timestamp(secs, nsecs) is Some exactly when floor(secs/86400)+719163 is the day number of a representable date and nsecs < 10^9 (or < 2*10^9 on a second 59); then the date has that day number, the time of day is secs mod 86400 with fraction nsecs, and timestamp()/timestamp_subsec_nanos() give (secs, nsecs) back",
            bounds="all i64 seconds x all u32 nanosecond fields; day-number kernels via their C01 contracts",
            outside="bodies of from_num_days_from_ce_opt / num_days_from_ce (proved separately in C01)")
def c02_m_from_timestamp(o):
    use_contracts(o)
    secs = o.input("secs", "i64")
    ns = o.input("ns", "u32")
    o.set_tyenv(Tz="Utc")
    r = o.call("DateTime::<Utc>::from_timestamp", secs, ns)
    some = opt_is_some(r)
    dt = opt_payload(r)
    yof, tsec, tfrac = dt_parts(dt)
    Y, O = decode(o, yof, "")
    back = o.call("DateTime::<Utc>::timestamp", o.ref(dt), name="timestamp", when=some)
    sub = o.call("DateTime::<Utc>::timestamp_subsec_nanos", o.ref(dt), name="subsec", when=some)
    o.flat = [z3.If(some, 1, 0), z3.If(some, Y, 0), z3.If(some, O, 0), z3.If(some, tsec, 0), z3.If(some, tfrac, 0), z3.If(some, back.e, 0)]
    o.no_panic()
    day = secs.e / DAY + EPOCH
    o.reachable("some_negative", z3.And(some, secs.e < 0))
    o.reachable("leap", z3.And(some, ns.e >= G))
    o.reachable("none_range", z3.And(z3.Not(some), ns.e < G))
    o.claim("some_iff", some == z3.And(day >= LO, day <= HI, valid_ns(secs.e, ns.e)))
    o.claim("fields", z3.Implies(some, z3.And(dayno(Y, O) == day, Y >= MINY, Y <= MAXY, O >= 1, O <= z3.If(is_leap(Y), 366, 365),
                                             tsec == secs.e % DAY, tfrac == ns.e)))
    o.claim("timestamp_roundtrip", z3.Implies(some, z3.And(back.e == secs.e, sub.e == ns.e)))


def _scaled(fn, unit, getter, probe_name):
    per = G // unit  # units per second

    @obligation(prop="C02", tier="quick", timeout=900, probe=probe_name,
                desc=f"DateTime::{fn}(x) denotes the instant exactly x units after the epoch (floor toward -infinity for the sub-second split), fails exactly when that instant is not representable, and {getter}() returns x",
                bounds="all i64 counts; day-number kernels via their C01 contracts")
    def ob(o):
        use_contracts(o)
        x = o.input("x", "i64")
        o.set_tyenv(Tz="Utc")
        r = o.call("DateTime::<Utc>::" + fn, x)
        if fn == "from_timestamp_nanos":
            some = z3.BoolVal(True)
            dt = r
        else:
            some = opt_is_some(r)
            dt = opt_payload(r)
        yof, tsec, tfrac = dt_parts(dt)
        Y, O = decode(o, yof, "")
        back = o.call("DateTime::<Utc>::" + getter, o.ref(dt), name="back", when=some)
        if getter == "timestamp_nanos_opt":
            bsome, bval = opt_is_some(back), opt_payload(back).e
        else:
            bsome, bval = z3.BoolVal(True), back.e
        o.flat = [z3.If(some, 1, 0), z3.If(some, Y, 0), z3.If(some, O, 0), z3.If(some, tsec, 0), z3.If(some, tfrac, 0), z3.If(z3.And(some, bsome), bval, 0)]
        o.no_panic()
        s = x.e / per          # floor
        sub = x.e - s * per    # 0 <= sub < per
        day = s / DAY + EPOCH
        o.reachable("negative", z3.And(some, x.e < 0, sub > 0))
        if fn != "from_timestamp_nanos":
            o.reachable("none", z3.Not(some))
        o.claim("some_iff_representable", some == z3.And(day >= LO, day <= HI))
        o.claim("denotes_instant", z3.Implies(some, z3.And(dayno(Y, O) == day, tsec == s % DAY, tfrac == sub * unit)))
        o.claim("reads_back", z3.Implies(some, z3.And(bsome, bval == x.e)))
    ob.__name__ = "c02_m_" + fn
    return ob


for _fn, _unit, _get in (("from_timestamp_millis", 1000000, "timestamp_millis"), ("from_timestamp_micros", 1000, "timestamp_micros"),
                         ("from_timestamp_nanos", 1, "timestamp_nanos_opt")):
    globals()["c02_m_" + _fn] = _scaled(_fn, _unit, _get, _fn)
import api as _api
for _ob in _api.REGISTRY:
    if _ob.fn.__name__.startswith("c02_m_from_timestamp_"):
        _ob.name = _ob.fn.__name__


@obligation(prop="C02", tier="quick", timeout=900, probe="dt_timestamps",
            desc="for every UTC date-time: timestamp() = (daynumber-719163)*86400 + second of day; timestamp_millis/_micros are exact; timestamp_nanos_opt is Some(exact) exactly when secs*10^9+nanos fits in i64 (including the negative-overflow workaround) ; subsec accessors truncate",
            bounds="all dates x all times of day incl. leap fractions; num_days_from_ce via its C01 contract")
def c02_m_accessors(o):
    use_contracts(o)
    Y = o.input("y", "i32")
    O = o.input("o", "u32")
    ts = o.input("ts", "u32")
    tf = o.input("tf", "u32")
    o.require(z3.And(Y.e >= MINY, Y.e <= MAXY, O.e >= 1, O.e <= z3.If(is_leap(Y.e), 366, 365), ts.e < DAY, tf.e < 2 * G))
    F = z3.Int("Fin")
    o.require(z3.And(F >= 1, F < 16))
    date = Agg("struct", "NaiveDate", [IntV(Y.e * 8192 + O.e * 16 + F, "i32")])
    dt = Agg("struct", "DateTime", [Agg("struct", "NaiveDateTime", [date, Agg("struct", "NaiveTime", [ts, tf])]), Agg("struct", "Utc", [])])
    o.set_tyenv(Tz="Utc")
    g = {}
    for fn in ("timestamp", "timestamp_millis", "timestamp_micros", "timestamp_subsec_millis", "timestamp_subsec_micros", "timestamp_subsec_nanos"):
        g[fn] = o.call("DateTime::<Utc>::" + fn, o.ref(dt), name=fn)
    nn = o.call("DateTime::<Utc>::timestamp_nanos_opt", o.ref(dt), name="nanos")
    o.flat = [g[k].e for k in g] + [z3.If(opt_is_some(nn), 1, 0), z3.If(opt_is_some(nn), opt_payload(nn).e, 0)]
    o.no_panic()
    secs = (dayno(Y.e, O.e) - EPOCH) * DAY + ts.e
    exact = secs * G + tf.e
    o.reachable("pre_epoch", secs < 0)
    o.reachable("nanos_none_low", z3.And(z3.Not(opt_is_some(nn)), secs < 0))
    o.reachable("nanos_none_high", z3.And(z3.Not(opt_is_some(nn)), secs > 0))
    o.claim("timestamp", g["timestamp"].e == secs)
    o.claim("millis", g["timestamp_millis"].e == secs * 1000 + tf.e / 1000000)
    o.claim("micros", g["timestamp_micros"].e == secs * 1000000 + tf.e / 1000)
    o.claim("subsec", z3.And(g["timestamp_subsec_nanos"].e == tf.e, g["timestamp_subsec_micros"].e == tf.e / 1000, g["timestamp_subsec_millis"].e == tf.e / 1000000))
    o.claim("nanos_some_iff_fits", opt_is_some(nn) == z3.And(exact >= -(1 << 63), exact <= (1 << 63) - 1))
    o.claim("nanos_exact", z3.Implies(opt_is_some(nn), opt_payload(nn).e == exact))


# ---- SystemTime <-> DateTime<Utc> ------------------------------------------------------------------
# std::time::SystemTime is modelled as what its documentation says it is: an exact instant, here an integer number of
# nanoseconds relative to UNIX_EPOCH.  duration_since / SystemTimeError::duration / +Duration / -Duration are the
# corresponding integer operations.  The chrono code between those calls is executed from the MIR.

def _systemtime_model(o):
    ST = lambda e: Agg("struct", "SystemTime", [IntV(e, "i128")])
    o.ex.const_overrides["std::time::UNIX_EPOCH"] = ST(z3.IntVal(0))

    def dur(e):
        return Agg("struct", "Duration", [IntV(e / G, "u64"), IntV(e % G, "u32")])

    def duration_since(ex, st, a):
        t, base = ex.load(st, a[0]).fields[0].e, ex.load(st, a[1]).fields[0].e
        d = t - base
        return st, EnumV("Result", z3.If(d >= 0, 0, 1), {0: [dur(d)], 1: [Agg("struct", "SystemTimeError", [dur(-d)])]})

    def err_duration(ex, st, a):
        return st, ex.load(st, a[0]).fields[0]

    def add(sign):
        def f(ex, st, a):
            t = ex.load(st, a[0]).fields[0].e
            d = a[1]
            return st, ST(t + sign * (d.fields[0].e * G + d.fields[1].e))
        return f
    o.summarize_raw(r"^SystemTime::duration_since$", duration_since)
    o.summarize_raw(r"^SystemTimeError::duration$", err_duration)
    o.summarize_raw(r"^<SystemTime as Add<std::time::Duration>>::add$", add(1))
    o.summarize_raw(r"^<SystemTime as Sub<std::time::Duration>>::sub$", add(-1))
    return ST


@obligation(prop="C02", tier="quick", timeout=900, probe="systemtime",
            desc="SystemTime -> DateTime<Utc> -> SystemTime preserves the instant: From<SystemTime> for DateTime<Utc> yields the date-time exactly that many nanoseconds from the epoch (pre-epoch instants split with floor, including a zero sub-second part), and From<DateTime<Utc>> for SystemTime gives that instant back",
            bounds="all instants whose UTC date-time is representable, at nanosecond resolution; SystemTime modelled as an exact integer nanosecond count (its documented meaning); day-number kernels via their C01 contracts",
            outside="platform limits of SystemTime itself (std may panic on overflow of its own representation); DateTime<Local>")
def c02_m_systemtime(o):
    use_contracts(o)
    ST = _systemtime_model(o)
    o.set_tyenv(Tz="Utc")
    T = o.input("T", "i128")
    lo_ns = (LO - EPOCH) * DAY * G
    hi_ns = ((HI - EPOCH) * DAY + DAY) * G - 1
    o.require(z3.And(T.e >= lo_ns, T.e <= hi_ns))
    dt = o.call("<DateTime<Utc> as From<SystemTime>>::from", ST(T.e), name="from_systemtime")
    yof, tsec, tfrac = dt_parts(dt)
    Y, O = decode(o, yof, "st")
    o.no_panic()
    o.reachable("pre_epoch_whole_second", z3.And(T.e < 0, T.e % G == 0))
    o.reachable("pre_epoch_fraction", z3.And(T.e < 0, T.e % G != 0))
    s = T.e / G
    o.claim("denotes_the_instant", z3.And(dayno(Y, O) == s / DAY + EPOCH, tsec == s % DAY, tfrac == T.e % G))
    back = o.call("<SystemTime as From<DateTime<Utc>>>::from", dt, name="to_systemtime")
    o.flat = [Y, O, tsec, tfrac, back.fields[0].e]
    o.no_panic("no_panic_back")
    o.claim("round_trip", back.fields[0].e == T.e)
