"""C01 — day number <-> (year, ordinal): full i32 / full date domain (the part Kani cannot decide at full width)."""
import z3
from api import obligation, opt_is_some, opt_payload
from symex import IntV, Agg

MINY, MAXY = -262143, 262142


def is_leap(y):
    return z3.Or(z3.And(y % 4 == 0, y % 100 != 0), y % 400 == 0)


def dayno(y, o):
    """reference: days since 0000-12-31 of ordinal o in year y (proleptic Gregorian); floor divisions"""
    p = y - 1
    return 365 * p + p / 4 - p / 100 + p / 400 + o


def decode_date(o, date, tag):
    """NaiveDate value -> fresh (year, ordinal, flags) with the unique-decomposition constraint of the packed word"""
    yof = date.fields[0].e
    Y, O, F = z3.Int("Y" + tag), z3.Int("O" + tag), z3.Int("F" + tag)
    o.require(z3.And(yof == Y * 8192 + O * 16 + F, F >= 0, F < 16, O >= 0, O < 512))
    return Y, O, F


def sym_date(o, tag):
    """a symbolic valid NaiveDate built through the real from_yo_opt (assumed to return Some)"""
    y = o.input("y" + tag, "i32")
    d = o.input("o" + tag, "u32")
    r = o.call("NaiveDate::from_yo_opt", y, d, name="from_yo_opt" + tag)
    o.require(z3.Implies(o.state.pc, opt_is_some(r)))
    date = opt_payload(r)
    # the accessors' own terms for year / ordinal equal the constructor arguments (cuts reused by later calls: same terms)
    yr = o.call("NaiveDate::year", o.ref(date), name="year" + tag)
    od = o.call("NaiveDate::ordinal", o.ref(date), name="ordinal" + tag)
    o.cut("year_accessor" + tag, yr.e == y.e)
    o.cut("ordinal_accessor" + tag, od.e == d.e)
    return y, d, date


@obligation(prop="C01", tier="quick", timeout=900, probe="from_num_days_from_ce_opt", shards=8,
            desc="from_num_days_from_ce_opt(n) is Some exactly for day numbers of representable dates, and then its (year, ordinal) is the valid date whose reference day number (365(y-1)+floor((y-1)/4)-floor((y-1)/100)+floor((y-1)/400)+ordinal) is n; no panic edge reachable",
            bounds="all i32 day numbers; YEAR_DELTAS / YEAR_TO_FLAGS contents taken from the MIR of the current tree; no loops",
            outside="nothing inside the function; weekday flags are covered by the Kani harness c01_weekday")
def c01_m_from_daynum(o):
    n = o.input("n", "i32")
    r = o.call("NaiveDate::from_num_days_from_ce_opt", n)
    some = opt_is_some(r)
    Y, O, F = decode_date(o, opt_payload(r), "")
    o.flat = [z3.If(some, 1, 0), z3.If(some, Y, 0), z3.If(some, O, 0)]
    o.no_panic()
    o.reachable("some", some)
    o.reachable("none_low", z3.And(z3.Not(some), n.e < 0))
    o.reachable("none_high", z3.And(z3.Not(some), n.e > 0))
    era = (n.e + 365) / 146097
    o.cut("year_in_era", z3.Implies(some, z3.And(Y - 400 * era >= 0, Y - 400 * era <= 399)))
    o.claim("valid_date", z3.Implies(some, z3.And(Y >= MINY, Y <= MAXY, O >= 1, O <= z3.If(is_leap(Y), 366, 365))))
    idx = ((n.e + 365) % 146097) / 365  # index into YEAR_DELTAS
    isplits = [idx == a for a in range(0, 401)]
    o.claim("daynum_matches", z3.Implies(some, dayno(Y, O) == n.e), splits=isplits)
    lo = dayno(z3.IntVal(MINY), 1)
    hi = dayno(z3.IntVal(MAXY), 365)
    # None exactly outside [daynum(MIN), daynum(MAX)]: split on the 400-year era of n
    elo, ehi = -656, 655
    splits = [n.e > 2147483647 - 365, z3.And(n.e <= 2147483647 - 365, era < elo),
              z3.And(era > elo, era < ehi), z3.And(n.e <= 2147483647 - 365, era > ehi)]
    splits += [z3.And(era == elo, idx == a) for a in range(0, 401)] + [z3.And(era == ehi, idx == a) for a in range(0, 401)]
    o.claim("none_iff_out_of_range", z3.Implies(z3.Not(some), z3.Or(n.e < lo, n.e > hi)), splits=splits)
    o.claim("some_iff_in_range", z3.Implies(some, z3.And(n.e >= lo, n.e <= hi)))


@obligation(prop="C01", tier="quick", timeout=900, probe="num_days_from_ce",
            desc="num_days_from_ce (inherent const fn AND the Datelike trait's provided body instantiated for NaiveDate) equals the reference day number for every date",
            bounds="all dates (i32 year x u32 ordinal accepted by the real from_yo_opt)")
def c01_m_daynum_of_date(o):
    y, d, date = sym_date(o, "")
    a = o.call("NaiveDate::num_days_from_ce", o.ref(date), name="inherent")
    o.set_tyenv(Self="NaiveDate")
    b = o.call("<NaiveDate as Datelike>::num_days_from_ce", o.ref(date), name="trait")
    o.flat = [b.e, a.e]  # natively: the trait method, and the inherent one observed through signed_duration_since
    o.no_panic()
    o.reachable("min_year", y.e == MINY)
    o.reachable("max_year", y.e == MAXY)
    o.claim("inherent_matches", a.e == dayno(y.e, d.e))
    o.claim("trait_default_matches", b.e == dayno(y.e, d.e))
