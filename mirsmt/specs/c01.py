"""C01 — day number <-> (year, ordinal): full i32 / full date domain (the part Kani cannot decide at full width)."""
import z3
from api import obligation, opt_is_some, opt_payload
from symex import IntV, Agg

MINY, MAXY = -262143, 262142


def is_leap(y):
    return z3.Or(z3.And(y % 4 == 0, y % 100 != 0), y % 400 == 0)


def dayno(y, o):
    """reference: days since 0000-12-31 of ordinal o in year y (proleptic Gregorian); floor divisions"""
    p = y - 1
    return 365 * p + p / 4 - p / 100 + p / 400 + o


def decode_date(o, date, tag):
    """NaiveDate value -> fresh (year, ordinal, flags) with the unique-decomposition constraint of the packed word"""
    yof = date.fields[0].e
    Y, O, F = z3.Int("Y" + tag), z3.Int("O" + tag), z3.Int("F" + tag)
    o.require(z3.And(yof == Y * 8192 + O * 16 + F, F >= 0, F < 16, O >= 0, O < 512))
    return Y, O, F


def sym_date(o, tag):
    """a symbolic valid NaiveDate built through the real from_yo_opt (assumed to return Some)"""
    y = o.input("y" + tag, "i32")
    d = o.input("o" + tag, "u32")
    r = o.call("NaiveDate::from_yo_opt", y, d, name="from_yo_opt" + tag)
    o.require(z3.Implies(o.state.pc, opt_is_some(r)))
    date = opt_payload(r)
    # the accessors' own terms for year / ordinal equal the constructor arguments (cuts reused by later calls: same terms)
    yr = o.call("NaiveDate::year", o.ref(date), name="year" + tag)
    od = o.call("NaiveDate::ordinal", o.ref(date), name="ordinal" + tag)
    o.cut("year_accessor" + tag, yr.e == y.e)
    o.cut("ordinal_accessor" + tag, od.e == d.e)
    return y, d, date


@obligation(prop="C01", tier="thorough", timeout=1800, probe="from_num_days_from_ce_opt", shards=8,
            desc="from_num_days_from_ce_opt(n) is Some exactly for day numbers of representable dates, and then its (year, ordinal) is the valid date whose reference day number (365(y-1)+floor((y-1)/4)-floor((y-1)/100)+floor((y-1)/400)+ordinal) is n; no panic edge reachable",
            bounds="all i32 day numbers; YEAR_DELTAS / YEAR_TO_FLAGS contents taken from the MIR of the current tree; no loops",
            outside="nothing inside the function; weekday flags are covered by the Kani harness c01_weekday")
def c01_m_from_daynum(o):
    n = o.input("n", "i32")
    r = o.call("NaiveDate::from_num_days_from_ce_opt", n)
    some = opt_is_some(r)
    Y, O, F = decode_date(o, opt_payload(r), "")
    o.flat = [z3.If(some, 1, 0), z3.If(some, Y, 0), z3.If(some, O, 0)]
    o.no_panic()
    o.reachable("some", some)
    o.reachable("none_low", z3.And(z3.Not(some), n.e < 0))
    o.reachable("none_high", z3.And(z3.Not(some), n.e > 0))
    era = (n.e + 365) / 146097
    o.cut("year_in_era", z3.Implies(some, z3.And(Y - 400 * era >= 0, Y - 400 * era <= 399)))
    o.claim("valid_date", z3.Implies(some, z3.And(Y >= MINY, Y <= MAXY, O >= 1, O <= z3.If(is_leap(Y), 366, 365))))
    idx = ((n.e + 365) % 146097) / 365  # index into YEAR_DELTAS
    isplits = [idx == a for a in range(0, 401)]
    o.claim("daynum_matches", z3.Implies(some, dayno(Y, O) == n.e), splits=isplits)
    lo = dayno(z3.IntVal(MINY), 1)
    hi = dayno(z3.IntVal(MAXY), 365)
    # None exactly outside [daynum(MIN), daynum(MAX)]: split on the 400-year era of n
    elo, ehi = -656, 655
    splits = [n.e > 2147483647 - 365, z3.And(n.e <= 2147483647 - 365, era < elo),
              z3.And(era > elo, era < ehi), z3.And(n.e <= 2147483647 - 365, era > ehi)]
    splits += [z3.And(era == elo, idx == a) for a in range(0, 401)] + [z3.And(era == ehi, idx == a) for a in range(0, 401)]
    o.claim("none_iff_out_of_range", z3.Implies(z3.Not(some), z3.Or(n.e < lo, n.e > hi)), splits=splits)
    o.claim("some_iff_in_range", z3.Implies(some, z3.And(n.e >= lo, n.e <= hi)))


@obligation(prop="C01", tier="quick", timeout=900, probe="num_days_from_ce",
            desc="num_days_from_ce (inherent const fn AND the Datelike trait's provided body instantiated for NaiveDate) equals the reference day number for every date",
            bounds="all dates (i32 year x u32 ordinal accepted by the real from_yo_opt)")
def c01_m_daynum_of_date(o):
    y, d, date = sym_date(o, "")
    a = o.call("NaiveDate::num_days_from_ce", o.ref(date), name="inherent")
    o.set_tyenv(Self="NaiveDate")
    b = o.call("<NaiveDate as Datelike>::num_days_from_ce", o.ref(date), name="trait")
    o.flat = [b.e, a.e]  # natively: the trait method, and the inherent one observed through signed_duration_since
    o.no_panic()
    o.reachable("min_year", y.e == MINY)
    o.reachable("max_year", y.e == MAXY)
    o.claim("inherent_matches", a.e == dayno(y.e, d.e))
    o.claim("trait_default_matches", b.e == dayno(y.e, d.e))


# ---- kernel contracts (used as summaries by C01/C02/C03 obligations) ---------------------------

def leaps_before(r):
    """number of leap years among cycle years 0..r-1 (year 0 of the 400-year cycle is leap)"""
    return z3.If(r <= 0, 0, (r - 1) / 4 - (r - 1) / 100 + (r - 1) / 400 + 1)


def cyc(r, o):
    """day index inside the 400-year cycle (year 0, ordinal 1 -> 0)"""
    return 365 * r + leaps_before(r) + o - 1


@obligation(prop="C01", tier="quick", timeout=600, shards=4,
            desc="kernel contract: cycle_to_yo(c) for 0 <= c < 146097 returns (year_mod_400, ordinal) with 0 <= year_mod_400 <= 399, 1 <= ordinal <= 365/366 and 365*r + leaps_before(r) + ordinal - 1 == c (YEAR_DELTAS against the closed-form leap count); no panic edge reachable",
            bounds="all cycle day indices 0..146096 (the callers' precondition), split per YEAR_DELTAS index")
def c01_m_cycle_to_yo(o):
    c = o.input("c", "u32")
    o.require(c.e < 146097)
    r = o.call("cycle_to_yo", c)
    ym, od = r.fields[0].e, r.fields[1].e
    o.flat = [ym, od]
    o.no_panic()
    o.reachable("last_day", z3.And(c.e == 146096, ym == 399))
    idx = c.e / 365
    sp = [idx == a for a in range(0, 401)]
    o.claim("contract", z3.And(ym >= 0, ym <= 399, od >= 1, od <= z3.If(is_leap(ym), 366, 365), cyc(ym, od) == c.e), splits=sp)


@obligation(prop="C01", tier="quick", timeout=600, shards=4,
            desc="kernel contract: yo_to_cycle(r, ordinal) == 365*r + leaps_before(r) + ordinal - 1 for 0 <= r <= 399, 1 <= ordinal <= 366; no panic edge reachable",
            bounds="all (year_mod_400, ordinal) pairs of the callers' precondition, split per table index")
def c01_m_yo_to_cycle(o):
    r = o.input("r", "u32")
    od = o.input("od", "u32")
    o.require(z3.And(r.e <= 399, od.e >= 1, od.e <= 366))
    v = o.call("yo_to_cycle", r, od)
    o.flat = [v.e]
    o.no_panic()
    o.reachable("r399", r.e == 399)
    o.claim("contract", v.e == cyc(r.e, od.e), splits=[r.e == a for a in range(0, 400)])


def sum_cycle_to_yo(ex, st, args):
    c = args[0].e
    key = (id(ex), "cycle_to_yo", c.get_id())
    if key in _SUM_CACHE:
        ym, od = _SUM_CACHE[key]
        return st, Agg("tuple", "tuple", [IntV(ym, "u32"), IntV(od, "u32")])
    ym, od = ex.fresh("ym"), ex.fresh("od")
    _SUM_CACHE[key] = (ym, od)
    ex.side.append(z3.Implies(z3.And(c >= 0, c < 146097),
                              z3.And(ym >= 0, ym <= 399, od >= 1, od <= z3.If(is_leap(ym), 366, 365), cyc(ym, od) == c)))
    # outside the precondition the real function may panic or return anything: report it as a panic edge
    ex.panics.append((z3.And(st.pc, z3.Not(z3.And(c >= 0, c < 146097))), "cycle_to_yo called outside its contract precondition", "cycle_to_yo"))
    return st, Agg("tuple", "tuple", [IntV(ym, "u32"), IntV(od, "u32")])


_SUM_CACHE = {}


def sum_yo_to_cycle(ex, st, args):
    r, od = args[0].e, args[1].e
    pre = z3.And(r >= 0, r <= 399, od >= 1, od <= 366)
    key = (id(ex), "yo_to_cycle", r.get_id(), od.get_id())
    if key in _SUM_CACHE:       # same argument terms -> same result term (the function is pure)
        return st, IntV(_SUM_CACHE[key], "u32")
    v = ex.fresh("cyc")
    _SUM_CACHE[key] = v
    ex.side.append(z3.Implies(pre, v == cyc(r, od)))
    ex.side.append(z3.And(v >= 0, v <= 4294967295))
    ex.panics.append((z3.And(st.pc, z3.Not(pre)), "yo_to_cycle called outside its contract precondition", "yo_to_cycle"))
    return st, IntV(v, "u32")


def use_cycle_contracts(o):
    o.summarize("naive::date::cycle_to_yo", sum_cycle_to_yo)
    o.summarize("naive::date::yo_to_cycle", sum_yo_to_cycle)


def periodicity(o):
    """dayno(400E + r, od) == 146097 E + cyc(r, od) - 365 for all E and 0 <= r < 400 (pure arithmetic lemma, proved by z3)"""
    E, r, od = z3.Ints("lemE lemR lemO")
    o.lemma("dayno_periodic", [E, r, od], z3.Implies(z3.And(r >= 0, r < 400), dayno(400 * E + r, od) == 146097 * E + cyc(r, od) - 365))


@obligation(prop="C01", tier="quick", timeout=600, probe="from_num_days_from_ce_opt",
            desc="from_num_days_from_ce_opt(n) (cycle kernels through their proved contracts): Some exactly for day numbers of representable dates, and then the valid (year, ordinal) whose reference day number is n; never panics; never calls a kernel outside its precondition",
            bounds="all i32 day numbers; cycle_to_yo via the contract proved by M:c01_m_cycle_to_yo",
            outside="body of cycle_to_yo (contract obligation); the direct, contract-free version of this obligation is M:c01_m_from_daynum (thorough tier)")
def c01_m_from_daynum_modular(o):
    use_cycle_contracts(o)
    periodicity(o)
    n = o.input("n", "i32")
    r = o.call("NaiveDate::from_num_days_from_ce_opt", n)
    some = opt_is_some(r)
    Y, O, F = decode_date(o, opt_payload(r), "")
    o.flat = [z3.If(some, 1, 0), z3.If(some, Y, 0), z3.If(some, O, 0)]
    o.no_panic()
    o.reachable("some", some)
    o.reachable("none_low", z3.And(z3.Not(some), n.e < 0))
    o.reachable("none_high", z3.And(z3.Not(some), n.e > 0))
    era = (n.e + 365) / 146097
    o.use_lemma("dayno_periodic", era, Y - 400 * era, O)
    lo = dayno(z3.IntVal(MINY), 1)
    hi = dayno(z3.IntVal(MAXY), 365)
    o.claim("valid_date", z3.Implies(some, z3.And(Y >= MINY, Y <= MAXY, O >= 1, O <= z3.If(is_leap(Y), 366, 365))))
    o.claim("daynum_matches", z3.Implies(some, dayno(Y, O) == n.e))
    o.claim("some_iff_in_range", some == z3.And(n.e >= lo, n.e <= hi))


def cycle_lemmas(o):
    """pure lemmas about the closed-form cycle index (proved by z3 without program terms)"""
    r, od, E = z3.Ints("lemR2 lemO2 lemE2")
    o.lemma("cyc_bounds", [r, od], z3.Implies(z3.And(r >= 0, r <= 399, od >= 1, od <= z3.If(is_leap(r), 366, 365)),
                                              z3.And(cyc(r, od) >= 0, cyc(r, od) <= 146096)))
    o.lemma("leap_periodic", [E, r], is_leap(400 * E + r) == is_leap(r))


@obligation(prop="C01", tier="quick", timeout=600,
            desc="kernel contract: YearFlags::from_year_mod_400(i) for 0 <= i < 400 has a non-zero weekday part (1..=7 in the low three bits), fits in four bits, and its leap bit is clear exactly for leap years (YEAR_TO_FLAGS against the divisibility rule); no panic",
            bounds="all 400 indices (split per index)")
def c01_m_year_flags(o):
    i = o.input("i", "i32")
    o.require(z3.And(i.e >= 0, i.e < 400))
    f = o.call("YearFlags::from_year_mod_400", i)
    fe = f.fields[0].e
    o.flat = [fe]
    o.no_panic()
    o.reachable("leap", z3.And(i.e == 0, fe < 8))
    o.claim("contract", z3.And(fe >= 1, fe <= 15, fe % 8 != 0, (fe < 8) == is_leap(i.e)), splits=[i.e == a for a in range(400)])


def sum_year_flags(ex, st, args):
    i = args[0].e
    F = ex.fresh("yflags")
    ex.side.append(z3.And(F >= 0, F <= 255))
    ex.side.append(z3.Implies(z3.And(i >= 0, i < 400), z3.And(F >= 1, F <= 15, F % 8 != 0, (F < 8) == is_leap(i))))
    ex.panics.append((z3.And(st.pc, z3.Not(z3.And(i >= 0, i < 400))), "from_year_mod_400 called outside 0..400", "YearFlags::from_year_mod_400"))
    return st, Agg("struct", "YearFlags", [IntV(F, "u8")])


def use_flags_contract(o):
    o.summarize("naive::internals::from_year_mod_400", sum_year_flags)


@obligation(prop="C01", tier="quick", timeout=600,
            desc="kernel contract: from_ordinal_and_flags(year, ordinal, flags) with a 4-bit flags value returns Some exactly for MIN_YEAR <= year <= MAX_YEAR and 1 <= ordinal <= 365 (366 when the flags' leap bit is clear), and the packed word is year*8192 + ordinal*16 + flags, i.e. its (year, ordinal) fields are the arguments",
            bounds="all i32 years x all u32 ordinals x flags 1..=15")
def c01_m_from_ordinal_and_flags(o):
    y = o.input("y", "i32")
    od = o.input("od", "u32")
    fl = o.input("fl", "u8")
    o.require(z3.And(fl.e >= 1, fl.e <= 15, fl.e % 8 != 0))
    r = o.call("NaiveDate::from_ordinal_and_flags", y, od, Agg("struct", "YearFlags", [fl]))
    some = opt_is_some(r)
    yof = opt_payload(r).fields[0].e
    o.flat = [z3.If(some, 1, 0)]
    o.no_panic()
    o.reachable("ord366", z3.And(some, od.e == 366))
    o.reachable("none", z3.Not(some))
    o.claim("some_iff", some == z3.And(y.e >= MINY, y.e <= MAXY, od.e >= 1, od.e <= z3.If(fl.e < 8, 366, 365)))
    o.claim("packed_word", z3.Implies(some, yof == y.e * 8192 + od.e * 16 + fl.e))


@obligation(prop="C01", tier="thorough", timeout=3000, shards=8,
            desc="weekday() of every date equals (reference day number - 1) mod 7 with Monday = 0 (0001-01-01 is a Monday): the weekday part of every YEAR_TO_FLAGS cell against the day-count calendar",
            bounds="all dates (representation invariant: year in range, ordinal <= 365/366, flags = YearFlags::from_year(year)); split per year mod 400")
def c01_m_weekday(o):
    periodicity(o)
    y = o.input("y", "i32")
    d = o.input("o", "u32")
    o.require(z3.And(y.e >= MINY, y.e <= MAXY, d.e >= 1, d.e <= z3.If(is_leap(y.e), 366, 365)))
    fl = o.call("YearFlags::from_year", y, name="flags")
    date = Agg("struct", "NaiveDate", [IntV(y.e * 8192 + d.e * 16 + fl.fields[0].e, "i32")])
    w = o.call("NaiveDate::weekday", o.ref(date), name="weekday")
    o.flat = [w.disc]
    o.no_panic()
    o.reachable("sunday", w.disc == 6)
    e = y.e / 400
    o.use_lemma("dayno_periodic", e, y.e - 400 * e, d.e)
    o.claim("weekday_is_daycount_mod_7", w.disc == (dayno(y.e, d.e) - 1) % 7, splits=[y.e % 400 == a for a in range(400)])
