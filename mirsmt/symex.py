"""Symbolic executor for rustc MIR (loop-free integer kernels) producing z3 integer-theory terms.

Machine integers are mathematical Ints kept inside their type's range; every operation implements the
machine semantics explicitly (wrap, checked overflow flag, truncating division, shifts, masks). Panics
(MIR assert failures, calls into core::panicking, unwrap/expect on None/Err) are collected as
(path-condition, message) pairs; the caller turns them into obligations.

Anything outside the supported subset raises Unsupported -> the obligation is inconclusive.
"""
import os
import re
import z3

import mirparse
from mirparse import split_top


class Unsupported(Exception):
    pass


INT_TYPES = {
    "i8": (8, True), "i16": (16, True), "i32": (32, True), "i64": (64, True), "i128": (128, True), "isize": (64, True),
    "u8": (8, False), "u16": (16, False), "u32": (32, False), "u64": (64, False), "u128": (128, False), "usize": (64, False),
}


def trange(ty):
    bits, signed = INT_TYPES[ty]
    return (-(1 << (bits - 1)), (1 << (bits - 1)) - 1) if signed else (0, (1 << bits) - 1)


# ------------------------------------------------------------------------------------------------
# values


class IntV:
    __slots__ = ("e", "ty", "lowzero", "zeromask")

    def __init__(self, e, ty, lowzero=0, zeromask=0):
        if isinstance(e, int):
            e = z3.IntVal(e)
        self.e = e
        self.ty = ty
        self.lowzero = lowzero  # number of low bits syntactically known to be zero
        self.zeromask = zeromask | ((1 << lowzero) - 1)  # bit positions syntactically known to be zero

    def __repr__(self):
        return f"IntV({self.e}:{self.ty})"


class BoolV:
    __slots__ = ("e",)

    def __init__(self, e):
        if isinstance(e, bool):
            e = z3.BoolVal(e)
        self.e = e

    def __repr__(self):
        return f"BoolV({self.e})"


class Agg:
    """tuple / struct / array"""
    __slots__ = ("kind", "name", "fields", "exact")

    def __init__(self, kind, name, fields, exact=None):
        self.kind = kind
        self.name = name
        self.fields = list(fields)
        self.exact = exact  # for (value, overflowed) tuples: (exact IntV, overflow z3 Bool)

    def __repr__(self):
        return f"{self.kind}:{self.name}{self.fields}"


class EnumV:
    """disc: z3 Int; payload[variant_index] = list of field values (may be missing for fieldless variants)"""
    __slots__ = ("name", "disc", "payload")

    def __init__(self, name, disc, payload=None):
        if isinstance(disc, int):
            disc = z3.IntVal(disc)
        self.name = name
        self.disc = disc
        self.payload = payload or {}

    def __repr__(self):
        return f"Enum:{self.name}(disc={self.disc}, {self.payload})"


class RefV:
    __slots__ = ("frame", "place")

    def __init__(self, frame, place):
        self.frame = frame
        self.place = place


class Poison:
    """a value that could not be merged at a control-flow join; any later use makes the obligation inconclusive"""
    __slots__ = ("why",)

    def __init__(self, why):
        self.why = why


class OpaqueV:
    """strings, fn items, ZSTs we never look into"""
    __slots__ = ("what",)

    def __init__(self, what):
        self.what = what

    def __repr__(self):
        return f"Opaque({self.what!r})"


UNIT = Agg("tuple", "()", [])


_CUR_EX = [None]


def ite_val(c, a, b, sts=None):
    """merge two values under condition c (a if c else b)"""
    if a is b:
        return a
    if a is None:
        return b
    if b is None:
        return a
    if isinstance(a, IntV) and isinstance(b, IntV):
        if a.e.eq(b.e):
            return a
        return IntV(z3.If(c, a.e, b.e), a.ty, min(a.lowzero, b.lowzero))
    if isinstance(a, BoolV) and isinstance(b, BoolV):
        if a.e.eq(b.e):
            return a
        return BoolV(z3.If(c, a.e, b.e))
    if isinstance(a, Agg) and isinstance(b, Agg) and len(a.fields) == len(b.fields):
        return Agg(a.kind, a.name, [ite_val(c, x, y, sts) for x, y in zip(a.fields, b.fields)])
    if isinstance(a, Agg) and isinstance(b, Agg) and a.kind == "struct" and a.name == b.name == "NaiveDate":
        # one side carries specification-only ghost fields (year, ordinal): keep only the real field
        return Agg(a.kind, a.name, [ite_val(c, a.fields[0], b.fields[0], sts)])
    if isinstance(a, Poison) or isinstance(b, Poison):
        return a if isinstance(a, Poison) else b
    if isinstance(a, EnumV) and isinstance(b, EnumV):
        pl = {}
        for k in set(a.payload) | set(b.payload):
            fa, fb = a.payload.get(k), b.payload.get(k)
            if fa is None:
                pl[k] = fb
            elif fb is None:
                pl[k] = fa
            else:
                pl[k] = [ite_val(c, x, y, sts) for x, y in zip(fa, fb)]
        d = a.disc if a.disc.eq(b.disc) else z3.If(c, a.disc, b.disc)
        return EnumV(a.name, d, pl)
    if isinstance(a, RefV) and isinstance(b, RefV) and a.frame == b.frame and a.place == b.place:
        return a
    if isinstance(a, (RefV, ConstRef)) and isinstance(b, (RefV, ConstRef)):
        # two different shared references meet at a join (e.g. `if c { &self.dst } else { &self.std }`): merge the
        # referents as a read-only value. A later write through the merged reference is refused (ConstRef is not writable).
        if sts is None or _CUR_EX[0] is None:
            raise Unsupported("merge of two different references")
        ex = _CUR_EX[0]
        va = a.v if isinstance(a, ConstRef) else ex.read_place(sts[0], a.frame, a.place)
        vb = b.v if isinstance(b, ConstRef) else ex.read_place(sts[1], b.frame, b.place)
        return ConstRef(ite_val(c, va, vb, sts))
    if isinstance(a, OpaqueV) and isinstance(b, OpaqueV):
        return a
    raise Unsupported(f"cannot merge values {type(a).__name__} / {type(b).__name__}")


# ------------------------------------------------------------------------------------------------
# machine integer semantics on z3 Ints


def wrap(e, ty):
    bits, signed = INT_TYPES[ty]
    m = 1 << bits
    if signed:
        h = 1 << (bits - 1)
        return (e + h) % m - h
    return e % m


def in_range(e, ty):
    lo, hi = trange(ty)
    return z3.And(e >= lo, e <= hi)


def tdiv(a, b):
    """truncating division, b may be symbolic (then nonlinear) -- constant divisors stay linear"""
    if z3.is_int_value(b):
        c = b.as_long()
        if c > 0:
            return z3.If(a >= 0, a / b, -((-a) / b))
        if c < 0:
            return z3.If(a >= 0, -(a / z3.IntVal(-c)), (-a) / z3.IntVal(-c))
    # z3 Int '/' is Euclidean-ish (floor for positive divisor, ceil for negative): build trunc from abs values
    absa = z3.If(a >= 0, a, -a)
    absb = z3.If(b >= 0, b, -b)
    q = absa / absb
    return z3.If((a >= 0) == (b >= 0), q, -q)


def trem(a, b):
    return a - b * tdiv(a, b)


def mask_const(e, ty, mask):
    """e & mask for a constant mask; e in range of ty; result in range of ty.
    Two's complement bits of a (possibly negative) integer are given directly by floor division / Euclidean modulo,
    so no reduction modulo 2^bits is needed; a run of ones that includes the sign bit keeps the sign."""
    bits, signed = INT_TYPES[ty]
    m = 1 << bits
    mask %= m
    res = None
    i = 0
    lz = None
    while i < bits:
        if (mask >> i) & 1:
            j = i
            while j < bits and (mask >> j) & 1:
                j += 1
            if lz is None:
                lz = i
            if j == bits and signed:
                part = (e / (1 << i)) * (1 << i) if i > 0 else e
            elif j == bits:
                part = (e / (1 << i)) * (1 << i) if i > 0 else e
            else:
                part = ((e / (1 << i)) % (1 << (j - i))) * (1 << i) if i > 0 else e % (1 << j)
            res = part if res is None else res + part
            i = j
        else:
            i += 1
    if res is None:
        res = z3.IntVal(0)
    return (z3.simplify(res) if z3.is_int_value(e) else res), (lz or 0)


# ------------------------------------------------------------------------------------------------
# program database


class Program:
    def __init__(self, mir_text, src_root):
        self.src_root = src_root
        self.funcs = [f for f in mirparse.parse_dump(mir_text)]
        self.runtime = [f for f in self.funcs if not f.ctfe]
        self.by_exact = {}
        self.by_last = {}
        self.inherent = {}  # (SelfBase, method) -> [f]
        self.traitimpl = {}  # (SelfBase, TraitBase, method) -> [f]
        self.traitdefault = {}  # (TraitBase, method) -> [f]
        self.closures = {}  # closure type string -> f
        self.impl_cache = {}
        self.enum_cache = {}
        for f in self.runtime:
            self.by_exact.setdefault(f.name, f)
            last = _last_seg(f.name)
            self.by_last.setdefault(last, []).append(f)
            mi = re.search(r"<impl at (src/[^:]+):(\d+):(\d+): \d+:\d+>::(\w+)$", f.name)
            if mi:
                hdr = self.impl_header(mi.group(1), int(mi.group(2)), int(mi.group(3)))
                mi = re.match(r"(.*)", mi.group(1)), mi  # keep groups accessible below
                mi = mi[1]
                if hdr:
                    trait, selfty = hdr
                    if trait:
                        self.traitimpl.setdefault((_base(selfty), _base(trait), mi.group(4)), []).append((f, selfty, trait))
                    else:
                        self.inherent.setdefault((_base(selfty), mi.group(4)), []).append((f, selfty, None))
            mt = re.match(r"^(?:\w+::)*(\w+)::(\w+)$", f.name)
            if mt and f.params and "Self" in f.params[0][1]:
                self.traitdefault.setdefault((mt.group(1), mt.group(2)), []).append(f)
            if "{closure#" in f.name and f.params:
                self.closures[f.params[0][1].lstrip("&").replace("mut ", "")] = f
        self.consts = {}
        for f in self.funcs:
            if f.kind == "const":
                self.consts.setdefault(f.name, f)

    def impl_header(self, path, line, col=None):
        key = (path, line, col)
        if key in self.impl_cache:
            return self.impl_cache[key]
        res = None
        try:
            lines = open(os.path.join(self.src_root, path)).read().split("\n")
            text = ""
            i = line - 1
            if lines[i].lstrip().startswith("#[derive(") or "derive(" in lines[i]:
                # derived impl: the trait is the identifier at the recorded column, Self is the next struct/enum
                col = key[2] if len(key) > 2 else None
                j = i
                while j < len(lines) and not re.match(r"\s*(pub(\([^)]*\))?\s+)?(struct|enum)\s+(\w+)", lines[j]):
                    j += 1
                if j < len(lines) and col is not None:
                    selfty = re.match(r"\s*(?:pub(?:\([^)]*\))?\s+)?(?:struct|enum)\s+(\w+)", lines[j]).group(1)
                    trait = re.match(r"\w+", lines[i][col - 1:]).group(0)
                    self.impl_cache[key] = (trait, selfty)
                    return (trait, selfty)
            while i < len(lines) and "{" not in text:
                text += " " + lines[i].strip()
                i += 1
            text = text.split("{")[0].strip()
            m = re.match(r"^(?:unsafe )?impl\s*(<.*?>)?\s*(.+)$", text)
            if m:
                body = m.group(2)
                # strip leading generics that regex could not balance
                body = re.sub(r"\s+where\s.*$", "", body)
                parts = re.split(r"\s+for\s+", body)
                if len(parts) == 2:
                    res = (parts[0].strip(), parts[1].strip())
                else:
                    res = (None, body.strip())
        except OSError:
            res = None
        self.impl_cache[key] = res
        return res

    def enum_variants(self, name):
        """declaration-order variant names of a crate enum (parsed from source)"""
        base = _base(name)
        if base in self.enum_cache:
            return self.enum_cache[base]
        res = None
        for root, _, files in os.walk(os.path.join(self.src_root, "src")):
            for fn in files:
                if not fn.endswith(".rs"):
                    continue
                txt = open(os.path.join(root, fn)).read()
                m = re.search(r"\benum\s+" + re.escape(base) + r"\b[^{]*\{(.*?)\n\}", txt, re.S)
                if m:
                    body = re.sub(r"//[^\n]*", "", m.group(1))
                    body = re.sub(r"#\[[^\]]*\]", "", body)
                    vs = []
                    for part in split_top(body):
                        mm = re.match(r"\s*(\w+)", part)
                        if mm:
                            vs.append(mm.group(1))
                    res = vs
                    break
            if res:
                break
        self.enum_cache[base] = res
        return res


def split_qualified(callee):
    """`<A as B>::method[::<G>]` -> (A, B, method) with the ` as ` taken at bracket depth 1; None if not of that form"""
    if not callee.startswith("<"):
        return None
    depth = 0
    as_pos = None
    end = None
    i = 0
    n = len(callee)
    while i < n:
        c = callee[i]
        if c in "<([{":
            depth += 1
        elif c in ")]}":
            depth -= 1
        elif c == ">" and callee[i - 1] != "-":
            depth -= 1
            if depth == 0:
                end = i
                break
        elif depth == 1 and as_pos is None and callee[i:i + 4] == " as ":
            as_pos = i
        i += 1
    if end is None or as_pos is None:
        return None
    rest = callee[end + 1:]
    m = re.match(r"^::(\w+)(?:::<.*>)?$", rest)
    if not m:
        return None
    return callee[1:as_pos].strip(), callee[as_pos + 4:end].strip(), m.group(1)


def _last_seg(name):
    return split_path(name)[-1]


def split_path(name):
    """split a path at top-level '::'"""
    out, depth, cur = [], 0, []
    i = 0
    while i < len(name):
        c = name[i]
        if c in "<([{":
            depth += 1
        elif c in ")]}":
            depth -= 1
        elif c == ">" and name[i - 1] != "-":
            depth -= 1
        if c == ":" and depth == 0 and name[i:i + 2] == "::":
            out.append("".join(cur))
            cur = []
            i += 2
            continue
        cur.append(c)
        i += 1
    out.append("".join(cur))
    return out


def _base(ty):
    """NaiveDate, naive::date::NaiveDate, DateTime<Tz>, &T -> base identifier"""
    ty = ty.strip().lstrip("&").replace("mut ", "").strip()
    ty = re.sub(r"<.*$", "", ty)
    return ty.split("::")[-1].strip()


# ------------------------------------------------------------------------------------------------
# executor


class State:
    __slots__ = ("pc", "mem")

    def __init__(self, pc, mem):
        self.pc = pc
        self.mem = mem

    def copy(self):
        return State(self.pc, dict(self.mem))


class Executor:
    def __init__(self, prog, tyenv=None, assumptions=None, max_depth=40):
        self.p = prog
        self.tyenv = dict(tyenv or {})  # generic parameter name -> concrete type string
        self.panics = []  # (cond, message, function)
        self.frame_ctr = 0
        self.const_cache = {}
        self.fresh_ctr = 0
        self.side = []  # side constraints (division lemmas for symbolic divisors)
        _CUR_EX[0] = self
        self.unwind = {}  # function name (raw MIR header) -> loop unrolling bound (checked: exceeding it is a panic edge)
        self.assumptions = list(assumptions or [])
        self.solver = None
        self.max_depth = max_depth
        self.depth = 0
        self.encoded = set()
        self.stats = {"calls": 0, "blocks": 0, "bitor_queries": 0}
        self.cur_state = None
        self.div_cache = {}
        self.summaries = {}  # short function name -> fn(executor, state, args) -> (state, value): proved contract used instead of the body
        self.summarized = set()
        self.raw_summaries = []  # (regex on callee text, fn(executor, state, args))
        self.unreachables = []  # (path condition, function) of `unreachable` blocks we arrived at: must all be infeasible
        self.const_overrides = {}  # constant text -> value (models of std constants such as UNIX_EPOCH)

    # -- helpers -------------------------------------------------------------------------------
    def fresh(self, prefix, sort="Int"):
        self.fresh_ctr += 1
        return z3.Int(f"{prefix}!{self.fresh_ctr}") if sort == "Int" else z3.Bool(f"{prefix}!{self.fresh_ctr}")

    def norm(self, st, ex, ty):
        """value of the mathematically exact `ex` stored into type ty: exact when provably in range, else wrapped"""
        if z3.is_int_value(ex):
            v = ex.as_long()
            lo, hi = trange(ty)
            if lo <= v <= hi:
                return ex
        if st is not None and self.prove(st.pc, in_range(ex, ty), quick=True):
            return ex
        return z3.If(in_range(ex, ty), ex, wrap(ex, ty))

    def prove(self, pc, claim, quick=False):
        """is `claim` valid under assumptions, side constraints and pc?"""
        self.stats["bitor_queries"] += 1
        s = z3.Solver()
        s.set("arith.solver", 2)
        s.set("timeout", 3000 if quick else 20000)
        for a in self.assumptions:
            s.add(a)
        for a in self.side:
            s.add(a)
        s.add(pc)
        s.add(z3.Not(claim))
        import time as _t
        t0 = _t.time()
        r = s.check()
        dt = _t.time() - t0
        self.stats["prove_s"] = round(self.stats.get("prove_s", 0) + dt, 2)
        if os.environ.get("MIRSMT_VERBOSE") and dt > 1:
            import sys
            print(f"  [exec] side query {r} {dt:.1f}s quick={quick} claim={str(claim)[:100]!r}", file=sys.stderr, flush=True)
        return r == z3.unsat

    def subst_ty(self, s):
        for k, v in self.tyenv.items():
            s = re.sub(r"\b" + re.escape(k) + r"\b", v, s)
        return s

    # -- constants -----------------------------------------------------------------------------
    def const_value(self, text, hint_ty=None):
        t = text.strip()
        if t in self.const_overrides:
            return self.const_overrides[t]
        if t == "true":
            return BoolV(True)
        if t == "false":
            return BoolV(False)
        m = re.fullmatch(r"(-?\d+)_(i8|i16|i32|i64|i128|isize|u8|u16|u32|u64|u128|usize)", t)
        if m:
            return IntV(int(m.group(1)), m.group(2))
        if t.startswith('"') or t.startswith("b\""):
            return OpaqueV(t)
        if len(t) >= 3 and t[0] == "'" and t[-1] == "'":
            body = t[1:-1]
            if len(body) == 1:
                return IntV(ord(body), "u32")     # a char constant (as its scalar value)
            return OpaqueV(t)
        if t == "()":
            return UNIT
        m = re.fullmatch(r"(?:core|std)::num::<impl (\w+)>::(MAX|MIN|BITS)", t)
        if m:
            lo, hi = trange(m.group(1))
            return IntV({"MAX": hi, "MIN": lo, "BITS": INT_TYPES[m.group(1)][0]}[m.group(2)], m.group(1) if m.group(2) != "BITS" else "u32")
        m = re.fullmatch(r"(\w+)::(MAX|MIN)", t)
        if m and m.group(1) in INT_TYPES:
            lo, hi = trange(m.group(1))
            return IntV(hi if m.group(2) == "MAX" else lo, m.group(1))
        # unit-like enum variant constant, e.g. `RoundingError::DurationExceedsLimit`, `Weekday::Mon`, `Ordering::Less`
        ev = self.enum_const(t)
        if ev is not None:
            return ev
        # tuple-struct constant, e.g. `OutOfRangeError(())`
        mts = re.fullmatch(r"([A-Za-z_][\w:]*)\((.*)\)", t)
        if mts and not mts.group(1).startswith(("core::", "std::")):
            inner = [x for x in split_top(mts.group(2)) if x != ""]
            return Agg("struct", _base(mts.group(1)), [self.const_value(x) for x in inner])
        mz = re.fullmatch(r"ZeroSized: (\{closure@[^}]*\})", t)
        if mz:
            return Agg("struct", mz.group(1), [])
        # ZST constructors / function items
        if t.startswith("{closure") or t.startswith("fn("):
            return OpaqueV(t)
        if t in ("Utc", "offset::utc::Utc", "chrono::Utc"):
            return Agg("struct", "Utc", [])
        if t in ("std::fmt::Error", "core::fmt::Error", "fmt::Error"):
            return Agg("struct", "fmt::Error", [])
        mr = re.fullmatch(r"Result::<.*>::Err\((?:std|core)::fmt::Error\)", t)
        if mr:
            return EnumV("Result", 1, {1: [Agg("struct", "fmt::Error", [])]})
        # named constant of the crate
        f = self.lookup_const(t)
        if f is not None:
            return self.eval_const(f)
        raise Unsupported(f"constant {t!r}")

    def enum_const(self, t):
        segs = [s_ for s_ in split_path(t) if not s_.startswith("<")]
        if len(segs) < 2:
            return None
        en, var = segs[-2], segs[-1]
        en_b = _base(re.sub(r"::<.*", "", en))
        if en_b == "Ordering" and var in ("Less", "Equal", "Greater"):
            return EnumV("Ordering", {"Less": -1, "Equal": 0, "Greater": 1}[var])
        if en_b == "Option" and var == "None":
            return EnumV("Option", 0)
        vs = self.p.enum_variants(en_b)
        if vs and var in vs:
            return EnumV(en_b, vs.index(var))
        return None

    def lookup_const(self, t):
        if t in self.p.consts:
            return self.p.consts[t]
        # `<T as Trait>::method::promoted[N]`: the promoted constant of a trait impl's method
        mq = re.fullmatch(r"(<.+>::\w+)::(promoted\[\d+\])", t)
        if mq and t.startswith("<"):
            q = split_qualified(mq.group(1))
            if q:
                selfty, trait, meth = q
                cands = self.p.traitimpl.get((_base(selfty.lstrip("&").strip()), _base(trait), meth), [])
                if len(cands) > 1:
                    # several impls of the same trait for the same base type: compare generic arguments with module
                    # paths stripped (`std::convert::From<std::time::SystemTime>` ~ `From<SystemTime>`)
                    norm = lambda x: re.sub(r"\s+", "", re.sub(r"(\w+::)+", "", x or ""))
                    c2 = [c for c in cands if norm(c[2]) == norm(trait)]
                    c3 = [c for c in c2 if norm(c[1]) == norm(selfty)] or c2
                    cands = c3 or cands
                if len(cands) == 1:
                    nm = cands[0][0].name + "::" + mq.group(2)
                    if nm in self.p.consts:
                        return self.p.consts[nm]
        # generic arguments in the referencing path (`f::<T>::promoted[0]`) are not part of the definition's name
        t = "::".join(s_ for s_ in split_path(t) if not (s_.startswith("<") and s_.endswith(">")))
        if t in self.p.consts:
            return self.p.consts[t]
        # match by path suffix
        segs = split_path(t)
        cands = []
        for name, f in self.p.consts.items():
            mi = re.search(r"<impl at (src/[^:]+):(\d+):(\d+): [^>]*>", name)
            selfname = None
            if mi:
                hdr = self.p.impl_header(mi.group(1), int(mi.group(2)), int(mi.group(3)))
                if hdr:
                    selfname = _base(hdr[1])
            ns = split_path(re.sub(r"<impl at [^>]*>", selfname or "IMPL", name))
            ns2 = [s_ for s_ in ns if s_ != "IMPL"]
            k = min(len(ns2), len(segs))
            if ns2[-k:] == segs[-k:]:
                cands.append(f)
            elif selfname and len(segs) >= 2:
                ns3 = [s_ for s_ in ns if s_ != selfname]
                k3 = min(len(ns3), len(segs))
                if ns3[-k3:] == segs[-k3:]:
                    cands.append(f)
        if len(cands) == 1:
            return cands[0]
        if len(cands) > 1:
            # prefer exact tail match
            ex = [f for f in cands if split_path(re.sub(r"<impl at [^>]*>::", "", f.name))[-len(segs):] == segs]
            if not ex and len(segs) >= 2:
                ex = [f for f in cands if _impl_self_matches(self.p, f.name, segs[-2])]
            if len(ex) == 1:
                return ex[0]
            raise Unsupported(f"ambiguous constant {t!r}: {[f.name for f in cands][:4]}")
        return None

    def eval_const(self, f):
        if f.name in self.const_cache:
            return self.const_cache[f.name]
        if f.simple_const is not None:
            v = self.const_value(f.simple_const)
        else:
            st = State(z3.BoolVal(True), {})
            saved = self.panics
            self.panics = []
            st2, v = self.exec_fn(f, [], st)
            if self.panics:
                saved_p = self.panics
                self.panics = saved
                raise Unsupported(f"constant {f.name} may panic: {saved_p[:1]}")
            self.panics = saved
            # constants that are references: materialise pointee (immutable)
            v = self.deep_load(v, st2)
        self.const_cache[f.name] = v
        return v

    def deep_load(self, v, st):
        if isinstance(v, RefV):
            return ConstRef(self.deep_load(self.read_place(st, v.frame, v.place), st))
        if isinstance(v, Agg):
            return Agg(v.kind, v.name, [self.deep_load(x, st) for x in v.fields])
        if isinstance(v, EnumV):
            return EnumV(v.name, v.disc, {k: [self.deep_load(x, st) for x in fs] for k, fs in v.payload.items()})
        return v

    # -- memory --------------------------------------------------------------------------------
    def read_place(self, st, frame, place):
        k = place[0]
        if k == "local":
            key = (frame, place[1])
            if key not in st.mem:
                raise Unsupported(f"read of uninitialised local {place[1]}")
            if isinstance(st.mem[key], Poison):
                raise Unsupported(f"read of {place[1]} whose value could not be merged at a join: {st.mem[key].why}")
            return st.mem[key]
        if k == "field":
            base = self.read_place(st, frame, place[1])
            return self.get_field(base, place[2], place[3])
        if k == "deref":
            r = self.read_place(st, frame, place[1])
            if isinstance(r, ConstRef):
                return r.v
            if isinstance(r, RefV):
                return self.read_place(st, r.frame, r.place)
            raise Unsupported(f"deref of non-reference {type(r).__name__}")
        if k == "downcast":
            base = self.read_place(st, frame, place[1])
            if not isinstance(base, EnumV):
                raise Unsupported("downcast of non-enum")
            return Downcast(base, self.variant_index(base, place[2]))
        if k == "index":
            base = self.read_place(st, frame, place[1])
            idx = st.mem[(frame, place[2])]
            return self.select(base, idx)
        if k == "constindex":
            base = self.read_place(st, frame, place[1])
            return base.fields[place[2]]
        raise Unsupported(f"place {place}")

    def get_field(self, base, idx, ty=None):
        if isinstance(base, Downcast):
            fs = base.enum.payload.get(base.variant)
            if fs is None:
                raise Unsupported(f"payload of variant {base.variant} of {base.enum.name} never constructed")
            return fs[idx]
        if isinstance(base, Agg):
            if idx >= len(base.fields):
                raise Unsupported(f"field {idx} of {base}")
            return base.fields[idx]
        if isinstance(base, IntV) and idx == 0:
            return base  # transparent newtype (NonZero<i32>.0 etc.)
        raise Unsupported(f"field access on {type(base).__name__}")

    def select(self, arr, idx):
        if isinstance(arr, ConstRef):
            arr = arr.v
        if not isinstance(arr, Agg) or arr.kind != "array":
            raise Unsupported("index into non-array")
        n = len(arr.fields)
        if z3.is_int_value(idx.e):
            return arr.fields[idx.e.as_long()]

        def build(lo, hi):
            if hi - lo == 1:
                return arr.fields[lo]
            mid = (lo + hi) // 2
            return ite_val(idx.e < mid, build(lo, mid), build(mid, hi))

        return build(0, n)

    def write_place(self, st, frame, place, val):
        k = place[0]
        if k == "local":
            st.mem[(frame, place[1])] = val
            return
        if k == "deref":
            r = self.read_place(st, frame, place[1])
            if isinstance(r, RefV):
                self.write_place(st, r.frame, r.place, val)
                return
            raise Unsupported("write through non-local reference")
        if k == "field":
            base = self.read_place_or_none(st, frame, place[1])
            nb = self.set_field(base, place[2], val, place)
            self.write_place(st, frame, place[1], nb)
            return
        if k == "downcast":
            # writing a whole downcast is done through its fields only
            raise Unsupported("write to downcast place")
        raise Unsupported(f"write to place {place}")

    def read_place_or_none(self, st, frame, place):
        try:
            return self.read_place(st, frame, place)
        except Unsupported:
            return None

    def set_field(self, base, idx, val, place):
        if isinstance(base, Downcast):
            raise Unsupported("field write into enum payload")
        if base is None:
            fields = [None] * (idx + 1)
            fields[idx] = val
            return Agg("tuple", "?", fields)
        if isinstance(base, Agg):
            fs = list(base.fields)
            while len(fs) <= idx:
                fs.append(None)
            fs[idx] = val
            return Agg(base.kind, base.name, fs)
        if isinstance(base, IntV) and idx == 0:
            return val
        raise Unsupported(f"field write on {type(base).__name__}")

    def variant_index(self, enum, vname):
        if enum.name == "Option":
            return {"None": 0, "Some": 1}[vname]
        if enum.name == "Result":
            return {"Ok": 0, "Err": 1}[vname]
        if enum.name == "ControlFlow":
            return {"Continue": 0, "Break": 1}[vname]
        vs = self.p.enum_variants(enum.name)
        if vs and vname in vs:
            return vs.index(vname)
        raise Unsupported(f"variant {vname} of {enum.name}")

    # -- operands / rvalues --------------------------------------------------------------------
    def operand(self, st, frame, op):
        if op[0] == "place":
            v = self.read_place(st, frame, op[1])
            if isinstance(v, Downcast):
                raise Unsupported("use of bare downcast")
            return v
        if op[0] == "const":
            return self.const_value(op[1])
        raise Unsupported(f"operand {op}")

    def binop(self, st, name, a, b):
        if name in ("Eq", "Ne", "Lt", "Le", "Gt", "Ge"):
            if isinstance(a, BoolV) and isinstance(b, BoolV):
                if name == "Eq":
                    return BoolV(a.e == b.e)
                if name == "Ne":
                    return BoolV(a.e != b.e)
                ai, bi = z3.If(a.e, 1, 0), z3.If(b.e, 1, 0)
                return BoolV({"Lt": ai < bi, "Le": ai <= bi, "Gt": ai > bi, "Ge": ai >= bi}[name])
            ae, be = self.as_int(a), self.as_int(b)
            return BoolV({"Eq": ae == be, "Ne": ae != be, "Lt": ae < be, "Le": ae <= be, "Gt": ae > be, "Ge": ae >= be}[name])
        if name in ("BitAnd", "BitOr", "BitXor") and isinstance(a, BoolV) and isinstance(b, BoolV):
            return BoolV({"BitAnd": z3.And(a.e, b.e), "BitOr": z3.Or(a.e, b.e), "BitXor": z3.Xor(a.e, b.e)}[name])
        if name == "Cmp":
            ae, be = self.as_int(a), self.as_int(b)
            return EnumV("Ordering", z3.If(ae < be, -1, z3.If(ae == be, 0, 1)))
        if not (isinstance(a, IntV) and isinstance(b, IntV)):
            raise Unsupported(f"binop {name} on {type(a).__name__},{type(b).__name__}")
        ty = a.ty
        if name in ("AddWithOverflow", "SubWithOverflow", "MulWithOverflow"):
            ex = {"A": a.e + b.e, "S": a.e - b.e, "M": a.e * b.e}[name[0]]
            ovf = z3.Not(in_range(ex, ty))
            lz = min(a.lowzero, b.lowzero) if name[0] in "AS" else a.lowzero + b.lowzero
            if self.prove(st.pc, z3.Not(ovf), quick=True):
                return Agg("tuple", "(int,bool)", [IntV(ex, ty, lz), BoolV(False)])
            return Agg("tuple", "(int,bool)", [IntV(z3.If(ovf, wrap(ex, ty), ex), ty, lz), BoolV(ovf)], exact=(IntV(ex, ty, lz), ovf))
        if name in ("Add", "Sub", "Mul"):
            ex = {"A": a.e + b.e, "S": a.e - b.e, "M": a.e * b.e}[name[0]]
            return IntV(self.norm(st, ex, ty), ty)
        if name in ("AddUnchecked", "SubUnchecked", "MulUnchecked"):
            ex = {"A": a.e + b.e, "S": a.e - b.e, "M": a.e * b.e}[name[0]]
            return IntV(ex, ty)
        if name == "Div":
            return IntV(self.div_sym(a.e, b.e, ty)[0], ty)
        if name == "Rem":
            return IntV(self.div_sym(a.e, b.e, ty)[1], ty)
        if name in ("Shl", "ShlUnchecked"):
            if not z3.is_int_value(b.e):
                raise Unsupported("shift by symbolic amount")
            k = b.e.as_long() % INT_TYPES[ty][0]
            ex = a.e * (1 << k)
            return IntV(self.norm(st, ex, ty), ty, a.lowzero + k)
        if name in ("Shr", "ShrUnchecked"):
            if not z3.is_int_value(b.e):
                # right shift by a symbolic amount that is provably small (< 32): case split on the amount
                bits = INT_TYPES[ty][0]
                lim = min(32, bits)
                if self.prove(st.pc, z3.And(b.e >= 0, b.e < lim), quick=True):
                    e = a.e / (1 << (lim - 1))
                    for k in range(lim - 2, -1, -1):
                        e = z3.If(b.e == k, a.e / (1 << k), e)
                    return IntV(e, ty)
                raise Unsupported("shift by symbolic amount")
            k = b.e.as_long() % INT_TYPES[ty][0]
            return IntV(a.e / (1 << k), ty)  # floor division = arithmetic shift (signed) / logical (unsigned, value >= 0)
        if name == "BitAnd":
            full = (1 << INT_TYPES[ty][0]) - 1
            if z3.is_int_value(b.e):
                e, lz = mask_const(a.e, ty, b.e.as_long())
                return IntV(e, ty, max(lz, a.lowzero), (~b.e.as_long()) & full)
            if z3.is_int_value(a.e):
                e, lz = mask_const(b.e, ty, a.e.as_long())
                return IntV(e, ty, max(lz, b.lowzero), (~a.e.as_long()) & full)
            raise Unsupported("BitAnd of two symbolic operands")
        if name == "BitOr":
            return self.bitor(st, a, b)
        if name == "BitXor":
            if z3.is_int_value(b.e) and z3.is_int_value(a.e):
                return IntV(a.e.as_long() ^ b.e.as_long(), ty)
            raise Unsupported("BitXor of symbolic operands")
        raise Unsupported(f"binop {name}")

    def as_int(self, v):
        if isinstance(v, IntV):
            return v.e
        if isinstance(v, EnumV) and not v.payload:
            return v.disc
        if isinstance(v, BoolV):
            return z3.If(v.e, 1, 0)
        raise Unsupported(f"integer view of {type(v).__name__}")

    def div_sym(self, a, b, ty):
        """truncating (q, r) of a / b; symbolic divisor -> fresh q, r with the defining lemma"""
        if z3.is_int_value(b):
            q = tdiv(a, b)
            return q, a - b * q
        key = (a.get_id(), b.get_id())
        if key in self.div_cache:
            return self.div_cache[key]
        q, r = self.fresh("q"), self.fresh("r")
        self.div_cache[key] = (q, r)
        absb = z3.If(b >= 0, b, -b)
        lemma = z3.Implies(b != 0, z3.And(a == q * b + r, z3.If(a >= 0, z3.And(r >= 0, r < absb), z3.And(r <= 0, -r < absb))))
        self.side.append(lemma)
        return q, r

    def bitor(self, st, a, b):
        """a | b == a + b when the operands are bit-disjoint; disjointness is established syntactically (known zero bits)
        plus a solver query for the range of the other operand; otherwise the obligation is inconclusive"""
        ty = a.ty
        if z3.is_int_value(a.e) and z3.is_int_value(b.e):
            return IntV(a.e.as_long() | b.e.as_long(), ty)
        bits = INT_TYPES[ty][0]
        cands = []
        for x, y in ((a, b), (b, a)):
            # y occupies bits [y.lowzero, hi) if 0 <= y < 2^hi ; x must be zero there
            lo = y.lowzero
            if lo < bits and (x.zeromask >> lo) & 1:
                hi_ = lo
                while hi_ < bits and (x.zeromask >> hi_) & 1:
                    hi_ += 1
                if hi_ < bits:
                    cands.append((x, y, hi_))
            # x is a multiple of 2^k and y < 2^k
            k = x.lowzero
            if k > 0 and k != lo:
                cands.append((x, y, k))
        seen = set()
        for quick in (True, False):
            for x, y, hi_ in cands:
                if z3.is_int_value(y.e):
                    if 0 <= y.e.as_long() < (1 << hi_):
                        return IntV(x.e + y.e, ty, min(x.lowzero, y.lowzero))
                    continue
                key = (id(x), id(y), hi_, quick)
                if key in seen:
                    continue
                seen.add(key)
                if self.prove(st.pc, z3.And(y.e >= 0, y.e < (1 << hi_)), quick=quick):
                    return IntV(x.e + y.e, ty, min(x.lowzero, y.lowzero))
        raise Unsupported("BitOr of operands not provably bit-disjoint")

    def cast(self, v, target, kind):
        target = self.subst_ty(target)
        if kind == "IntToInt":
            if isinstance(v, BoolV):
                return IntV(z3.If(v.e, 1, 0), target)
            if isinstance(v, EnumV):
                e = v.disc
                return IntV(e if _fits_all(target) else wrap(e, target), target)
            if not isinstance(v, IntV):
                raise Unsupported(f"IntToInt cast of {type(v).__name__}")
            if target == "char" and v.ty == "u8":
                return IntV(v.e, "u32", v.lowzero)    # u8 as char: the scalar value (chars are modelled as u32)
            if target not in INT_TYPES:
                raise Unsupported(f"cast to {target}")
            lo, hi = trange(v.ty)
            tlo, thi = trange(target)
            if tlo <= lo and hi <= thi:
                return IntV(v.e, target, v.lowzero)
            return IntV(self.norm(self.cur_state, v.e, target), target, v.lowzero)
        if kind in ("Transmute", "PtrToPtr") or kind.startswith("PointerCoercion"):
            return v
        raise Unsupported(f"cast kind {kind}")

    def rvalue(self, st, frame, rv, dest_ty=None):
        k = rv[0]
        if k == "use":
            return self.operand(st, frame, rv[1])
        if k == "binop":
            return self.binop(st, rv[1], self.operand(st, frame, rv[2]), self.operand(st, frame, rv[3]))
        if k == "unop":
            v = self.operand(st, frame, rv[2])
            if rv[1] == "Not":
                if isinstance(v, BoolV):
                    return BoolV(z3.Not(v.e))
                if isinstance(v, IntV):
                    bits, signed = INT_TYPES[v.ty]
                    if z3.is_int_value(v.e):
                        c = v.e.as_long()
                        return IntV(-c - 1 if signed else ((1 << bits) - 1) - c, v.ty)
                    return IntV(-v.e - 1 if signed else ((1 << bits) - 1) - v.e, v.ty)
            if rv[1] == "Neg" and isinstance(v, IntV):
                return IntV(self.norm(st, -v.e, v.ty), v.ty)
            if rv[1] == "PtrMetadata":
                a = self.load(st, v) if isinstance(v, (RefV, ConstRef)) else v
                if isinstance(a, Agg) and a.kind == "array":
                    return IntV(len(a.fields), "usize")      # length of a slice that is a fixed-size array
            raise Unsupported(f"unop {rv[1]}")
        if k == "cast":
            return self.cast(self.operand(st, frame, rv[1]), rv[2], rv[3])
        if k == "discriminant":
            v = self.read_place(st, frame, rv[1])
            if isinstance(v, EnumV):
                return IntV(v.disc, "isize")
            raise Unsupported(f"discriminant of {type(v).__name__}")
        if k == "ref":
            pl = rv[1]
            # &(*_x) re-borrows: resolve to the original reference
            if pl[0] == "deref":
                r = self.read_place(st, frame, pl[1])
                if isinstance(r, (RefV, ConstRef)):
                    return r
            return RefV(frame, pl)
        if k == "tuple":
            return Agg("tuple", "tuple", [self.operand(st, frame, o) for o in rv[1]])
        if k == "array":
            return Agg("array", "array", [self.operand(st, frame, o) for o in rv[1]])
        if k == "repeat":
            n = self.const_value(rv[2]) if not rv[2].isdigit() else IntV(int(rv[2]), "usize")
            v = self.operand(st, frame, rv[1])
            return Agg("array", "array", [v] * n.e.as_long())
        if k == "struct":
            nm = rv[1] if rv[1].startswith("{closure@") else _base(rv[1])
            return Agg("struct", nm, [self.operand(st, frame, o) for _, o in rv[2]])
        if k == "ctor":
            return self.ctor(st, frame, rv[1], rv[2])
        if k == "len":
            v = self.read_place(st, frame, rv[1])
            if isinstance(v, ConstRef):
                v = v.v
            return IntV(len(v.fields), "usize")
        raise Unsupported(f"rvalue {rv}")

    def ctor(self, st, frame, path, ops):
        args = [self.operand(st, frame, o) for o in ops]
        segs = split_path(path)
        segs = [s for s in segs if not s.startswith("<")]  # drop turbofish generics
        if len(segs) >= 2:
            en, var = _base(segs[-2]), segs[-1]
            if en == "Option" and var in ("Some", "None"):
                return EnumV("Option", 1 if var == "Some" else 0, {1: args} if var == "Some" else {})
            if en == "Result" and var in ("Ok", "Err"):
                i = 0 if var == "Ok" else 1
                return EnumV("Result", i, {i: args})
            if en == "ControlFlow" and var in ("Continue", "Break"):
                i = 0 if var == "Continue" else 1
                return EnumV("ControlFlow", i, {i: args})
            vs = self.p.enum_variants(en)
            if vs and var in vs:
                i = vs.index(var)
                return EnumV(en, i, {i: args} if args else {})
        # tuple struct / unit struct
        return Agg("struct", _base(segs[-1]), args)

    # -- calls ---------------------------------------------------------------------------------
    def call(self, st, frame, callee, args):
        """returns (state_after, value) ; state_after None if the call never returns"""
        callee = self.subst_ty(callee)
        self.stats["calls"] += 1
        for rx, fn in self.raw_summaries:
            if re.search(rx, callee):
                self.summarized.add(callee)
                return fn(self, st, args)
        r = self.intrinsic(st, callee, args)
        if r is not NotImplemented:
            return r
        f, env = self.resolve(callee, args)
        if f is None:
            q = split_qualified(callee)
            if q and _base(q[1]) == "PartialOrd" and q[2] in ("lt", "le", "gt", "ge"):
                # provided comparison methods of PartialOrd: defined by core in terms of the impl's partial_cmp
                pc_callee = callee[:callee.rindex("::")] + "::partial_cmp"
                st2, r = self.call(st, frame, pc_callee, args)
                if st2 is None:
                    return None, None
                o_ = r.payload[1][0].disc
                some = r.disc == 1
                res = {"lt": o_ < 0, "le": o_ <= 0, "gt": o_ > 0, "ge": o_ >= 0}[q[2]]
                return st2, BoolV(z3.And(some, res))
            raise Unsupported(f"call to {callee!r} (no body / not modelled)")
        short = re.sub(r"<impl at [^>]*>::", "", f.name)
        if short in self.summaries:
            self.summarized.add(short)
            return self.summaries[short](self, st, args)
        if self.depth > self.max_depth:
            raise Unsupported("call depth exceeded")
        saved = self.tyenv
        self.tyenv = dict(saved)
        self.tyenv.update(env)
        self.depth += 1
        try:
            return self.exec_fn(f, args, st)
        finally:
            self.depth -= 1
            self.tyenv = saved

    def exec_real(self, callee, st, args):
        """run the real MIR body of `callee` (for summaries that only decorate the real result)"""
        f, env = self.resolve(callee, args)
        if f is None:
            raise Unsupported(f"exec_real: {callee} not found")
        saved = self.tyenv
        self.tyenv = dict(saved)
        self.tyenv.update(env)
        self.depth += 1
        try:
            return self.exec_fn(f, args, st)
        finally:
            self.depth -= 1
            self.tyenv = saved

    def resolve(self, callee, args):
        p = self.p
        env = {}
        # closures passed as values are called through intrinsics; here only named functions
        m = split_qualified(callee)
        if m:
            selfty, trait, meth = m
            selfty_nr = selfty.lstrip("&").strip()
            cands = p.traitimpl.get((_base(selfty_nr), _base(trait), meth), [])
            cands = [c for c in cands if _trait_args_match(c[2], trait)] or cands
            if len(cands) == 1:
                f, impl_self, _ = cands[0]
                env.update(_bind_generics(impl_self, selfty_nr))
                return f, env
            if len(cands) > 1:
                raise Unsupported(f"ambiguous trait impl for {callee}")
            # blanket impl `impl<T> Trait for T`
            bl = p.traitimpl.get(("T", _base(trait), meth), [])
            if len(bl) == 1:
                env["T"] = selfty_nr
                return bl[0][0], env
            dfl = p.traitdefault.get((_base(trait), meth), [])
            if len(dfl) == 1:
                env["Self"] = selfty_nr
                return dfl[0], env
            return None, env
        segs = split_path(callee)
        meth = re.sub(r"^<.*>$", "", segs[-1])
        if segs[-1].startswith("<") and len(segs) >= 2:
            # trailing method generics `name::<T>`
            fn_generics = split_top(segs[-1][1:-1])
            segs = segs[:-1]
            meth = segs[-1]
        else:
            fn_generics = []
        if len(segs) >= 2:
            owner = segs[-2]
            owner_generics = []
            if owner.startswith("<impl ") and " for " not in owner:
                owner = owner[len("<impl "):-1]        # `module::<impl Type>::method`: inherent impl in another module
            elif owner.startswith("<") and len(segs) >= 3:
                owner_generics = split_top(owner[1:-1])
                owner = segs[-3]
            ALIASES = {"LocalResult": "MappedLocalTime"}   # `pub type LocalResult<T> = MappedLocalTime<T>`
            cands = p.inherent.get((ALIASES.get(_base(owner), _base(owner)), meth), [])
            if len(cands) > 1:
                # several inherent impl blocks: choose by arity
                cands = [c for c in cands if len(c[0].params) == len(args)] or cands
            if len(cands) == 1:
                f, impl_self, _ = cands[0]
                if owner_generics:
                    env.update(_bind_generics(impl_self, f"{_base(owner)}<{', '.join(owner_generics)}>"))
                env.update(self.bind_fn_generics(f, fn_generics, args))
                return f, env
            if len(cands) > 1:
                raise Unsupported(f"ambiguous inherent method {callee}")
        # free function
        cands = [f for f in p.by_last.get(meth, []) if "<impl at" not in f.name and len(f.params) == len(args)]
        if len(segs) >= 2:
            pref = [f for f in cands if split_path(f.name)[-len(segs):] == segs]
            cands = pref or cands
        if len(cands) == 1:
            env.update(self.bind_fn_generics(cands[0], fn_generics, args))
            return cands[0], env
        if len(cands) > 1:
            raise Unsupported(f"ambiguous free function {callee}: {[f.name for f in cands]}")
        return None, env

    def bind_fn_generics(self, f, fn_generics, args):
        env = {}
        # generic parameter names = bare identifiers used as parameter types that are not known types
        names = []
        for _, ty in f.params:
            for tok in re.findall(r"\b[A-Z]\w{0,2}\b", ty):
                if tok not in names and tok not in INT_TYPES and tok not in ("Tz", "Self") or tok in ("Tz",):
                    if tok not in names:
                        names.append(tok)
        gen = [g for g in fn_generics if not g.startswith("'")]
        if gen and names and len(gen) == len(names):
            env.update(dict(zip(names, gen)))
        return env

    def intrinsic(self, st, callee, args):
        c = callee
        # panics
        if re.search(r"(core|std)::panicking::|::panic_fmt|::panic_const|option::expect_failed|option::unwrap_failed|result::unwrap_failed|slice_index|begin_panic|::panic_display|assert_failed|^panic_display|^panic_fmt|^panic_nounwind|^unreachable_display|^panic$|^panic_explicit$", c):
            self.panics.append((st.pc, f"call to {c}", "?"))
            return None, None
        m = re.fullmatch(r"(?:core|std)::num::<impl (\w+)>::(\w+)", c)
        if m and m.group(1) in INT_TYPES:
            return st, self.int_method(st, m.group(1), m.group(2), args)
        m = re.fullmatch(r"(?:core::num::nonzero::|std::num::)?NonZero::<(\w+)>::(\w+)", c)
        if m:
            if m.group(2) in ("new_unchecked", "get"):
                return st, args[0] if not isinstance(args[0], (RefV, ConstRef)) else self.load(st, args[0])
            if m.group(2) == "new":
                v = args[0]
                return st, EnumV("Option", z3.If(v.e != 0, 1, 0), {1: [v]})
        m = re.fullmatch(r"(?:(?:core|std)::option::)?Option::<(.+)>::(\w+)(::<.*>)?", c)
        if m:
            return self.option_method(st, m.group(2), args, c)
        m = re.fullmatch(r"(?:(?:core|std)::result::)?Result::<(.+)>::(\w+)(::<.*>)?", c)
        if m:
            return self.result_method(st, m.group(2), args, c)
        m = split_qualified(c)
        if m and _base(m[1]) in ("FnOnce", "FnMut", "Fn") and m[2] in ("call_once", "call_mut", "call"):
            # a closure value called through the Fn* traits: run the closure's own MIR body
            clo = args[0]
            cv = self.load(st, clo)
            if isinstance(cv, Agg) and str(cv.name).startswith("{closure@") and cv.name in self.p.closures:
                f = self.p.closures[cv.name]
                tup = args[1]
                call_args = list(tup.fields) if isinstance(tup, Agg) else [tup]
                first_ty = f.params[0][1] if f.params else ""
                recv = clo if first_ty.startswith("&") else cv
                if first_ty.startswith("&") and not isinstance(clo, (RefV, ConstRef)):
                    recv = ConstRef(cv)
                return self.exec_fn(f, [recv] + call_args, st)
            raise Unsupported(f"call of a closure that is not a known closure value: {c}")
        if m:
            selfty, trait, meth = m
            tb = _base(trait)
            sb = selfty.lstrip("&").strip()
            if tb in ("From", "Into") and meth in ("from", "into"):
                tgt = sb if tb == "From" else split_top(trait[trait.index("<") + 1:-1])[0]
                v = args[0]
                if tgt in INT_TYPES and isinstance(v, (IntV, BoolV)):
                    return st, self.cast(v, tgt, "IntToInt")
                if isinstance(v, IntV) and tgt == v.ty:
                    return st, v
                return NotImplemented
            if tb in ("TryFrom", "TryInto") and meth in ("try_from", "try_into"):
                tgt = sb if tb == "TryFrom" else split_top(trait[trait.index("<") + 1:-1])[0]
                v = args[0]
                if tgt in INT_TYPES and isinstance(v, IntV):
                    ok = in_range(v.e, tgt)
                    return st, EnumV("Result", z3.If(ok, 0, 1), {0: [IntV(v.e, tgt)], 1: [UNIT]})
                return NotImplemented
            if tb == "Clone" and meth == "clone":
                return st, self.load(st, args[0])
            if tb == "Default" and meth == "default" and sb in INT_TYPES:
                return st, IntV(0, sb)
            if tb in ("PartialEq", "PartialOrd", "Ord") and (sb in INT_TYPES or sb.startswith("NonZero")):
                a, b = self.load(st, args[0]), self.load(st, args[1])
                if tb == "Ord" and meth in ("min", "max") and sb in INT_TYPES:
                    return st, IntV(z3.If((a.e <= b.e) if meth == "min" else (a.e >= b.e), a.e, b.e), sb)
                return st, self.cmp_method(meth, a.e, b.e)
            if tb in ("PartialEq",) and sb == "()":
                return st, BoolV(True)
            if tb == "PartialEq" and meth in ("eq", "ne") and re.fullmatch(r"Option<(\w+)>", sb) and re.fullmatch(r"Option<(\w+)>", sb).group(1) in INT_TYPES:
                a, b = self.load(st, args[0]), self.load(st, args[1])
                if isinstance(a, EnumV) and isinstance(b, EnumV):
                    pa, pb = a.payload.get(1), b.payload.get(1)
                    same_payload = (pa[0].e == pb[0].e) if (pa and pb) else z3.BoolVal(True)
                    eq = z3.And(a.disc == b.disc, z3.Or(a.disc == 0, same_payload))
                    return st, BoolV(eq if meth == "eq" else z3.Not(eq))
            if tb == "Try" and meth == "branch":
                v = args[0]
                if isinstance(v, EnumV) and v.name == "Option":
                    # ControlFlow<Option<Infallible>, T>: Continue(v)=0 / Break(None)=1
                    return st, EnumV("ControlFlow", z3.If(v.disc == 1, 0, 1), {0: v.payload.get(1, [None]), 1: [EnumV("Option", 0)]})
                if isinstance(v, EnumV) and v.name == "Result":
                    return st, EnumV("ControlFlow", z3.If(v.disc == 0, 0, 1), {0: v.payload.get(0, [None]), 1: [EnumV("Result", 1, {1: v.payload.get(1, [None])})]})
                return NotImplemented
            if tb == "FromResidual" and meth == "from_residual":
                v = args[0]
                if isinstance(v, EnumV) and v.name == "Option":
                    return st, EnumV("Option", 0)
                if isinstance(v, EnumV) and v.name == "Result":
                    return st, EnumV("Result", 1, {1: v.payload.get(1, [None])})
                return NotImplemented
            if tb in ("Neg",) and sb in INT_TYPES:
                return st, self.rvalue_neg(args[0])
        m = re.fullmatch(r"(?:core|std)::cmp::(?:Ord::)?(max|min)::<(\w+)>", c) or re.fullmatch(r"(?:core|std)::cmp::(max|min)::<(\w+)>", c)
        if m and m.group(2) in INT_TYPES:
            a, b = args
            if m.group(1) == "max":
                return st, IntV(z3.If(a.e >= b.e, a.e, b.e), a.ty)
            return st, IntV(z3.If(a.e <= b.e, a.e, b.e), a.ty)
        m = re.fullmatch(r"(?:core|std)::cmp::impls::<impl (\w+) for (\w+)>::(\w+)", c)
        if m and m.group(2) in INT_TYPES:
            a, b = self.load(st, args[0]), self.load(st, args[1])
            return st, self.cmp_method(m.group(3), a.e, b.e)
        m = re.fullmatch(r"(?:core|std)::slice::<impl \[(\w+)\]>::binary_search", c)
        if m and m.group(1) in INT_TYPES:
            # specification of slice::binary_search on a STRICTLY INCREASING slice of known length: Ok(i) with a[i] == key,
            # else Err(number of elements below key). Strict monotonicity of the actual elements is proved here.
            arr = self.load(st, args[0])
            if isinstance(arr, ConstRef):
                arr = arr.v
            key = self.load(st, args[1])
            if not (isinstance(arr, Agg) and arr.kind == "array" and isinstance(key, IntV)):
                raise Unsupported("binary_search on something that is not a fixed-size integer array")
            els = [f.e for f in arr.fields]
            if len(els) >= 2 and not self.prove(st.pc, z3.And(*[els[i] < els[i + 1] for i in range(len(els) - 1)]), quick=False):
                raise Unsupported("binary_search: cannot show the slice strictly increasing (std leaves the result unspecified otherwise)")
            found = z3.Or(*[e == key.e for e in els]) if els else z3.BoolVal(False)
            idx = z3.Sum(*[z3.If(e < key.e, 1, 0) for e in els]) if els else z3.IntVal(0)
            iv = IntV(idx, "usize")
            return st, EnumV("Result", z3.If(found, 0, 1), {0: [iv], 1: [iv]})
        m = re.fullmatch(r"(?:(?:std|core)::ops::)?Range::<(\w+)>::contains(::<.*>)?", c)
        if m and m.group(1) in INT_TYPES:
            r, v = self.load(st, args[0]), self.load(st, args[1])
            if isinstance(r, Agg) and len(r.fields) == 2 and isinstance(v, IntV):
                return st, BoolV(z3.And(r.fields[0].e <= v.e, v.e < r.fields[1].e))
            return NotImplemented
        m = re.fullmatch(r"(?:(?:std|core)::ops::)?RangeInclusive::<(\w+)>::(new|contains)(::<.*>)?", c)
        if m and m.group(1) in INT_TYPES:
            if m.group(2) == "new":
                return st, Agg("struct", "RangeInclusive", [args[0], args[1]])
            r, v = self.load(st, args[0]), self.load(st, args[1])
            if isinstance(r, Agg) and r.name == "RangeInclusive" and isinstance(v, IntV):
                return st, BoolV(z3.And(r.fields[0].e <= v.e, v.e <= r.fields[1].e))
            return NotImplemented
        m = re.fullmatch(r"(?:std|core)::time::Duration::(\w+)", c)
        if m:
            return self.std_duration(st, m.group(1), args)
        m = re.fullmatch(r"(?:std|core)::mem::(replace|swap|take)::<.*>", c)
        if m and m.group(1) == "replace":
            old = self.load(st, args[0])
            self.write_place(st, args[0].frame, args[0].place, args[1])
            return st, old
        if re.search(r"(^|::)Arguments::<'_>::(from_str|new_const|new_v1)", c):
            return st, OpaqueV("fmt::Arguments")
        if re.fullmatch(r"(?:core|std)::hint::unreachable_unchecked|(?:core|std)::intrinsics::unreachable", c):
            return None, None
        if re.fullmatch(r"(?:core|std)::hint::assert_unchecked|(?:core|std)::intrinsics::assume", c):
            return st, UNIT
        return NotImplemented

    def load(self, st, v):
        if isinstance(v, ConstRef):
            return v.v
        if isinstance(v, RefV):
            return self.read_place(st, v.frame, v.place)
        return v

    def rvalue_neg(self, v):
        ex = -v.e
        return IntV(self.norm(self.cur_state, ex, v.ty), v.ty)

    def cmp_method(self, meth, a, b):
        if meth in ("eq", "ne", "lt", "le", "gt", "ge"):
            return BoolV({"eq": a == b, "ne": a != b, "lt": a < b, "le": a <= b, "gt": a > b, "ge": a >= b}[meth])
        if meth == "cmp":
            return EnumV("Ordering", z3.If(a < b, -1, z3.If(a == b, 0, 1)))
        if meth == "partial_cmp":
            return EnumV("Option", 1, {1: [EnumV("Ordering", z3.If(a < b, -1, z3.If(a == b, 0, 1)))]})
        raise Unsupported(f"comparison method {meth}")

    def int_method(self, st, ty, meth, args):
        a = args[0]
        b = args[1] if len(args) > 1 else None
        some = lambda ok, e, t=ty: EnumV("Option", z3.If(ok, 1, 0), {1: [IntV(e, t)]})
        if meth in ("checked_add", "checked_sub", "checked_mul"):
            ex = {"a": a.e + b.e, "s": a.e - b.e, "m": a.e * b.e}[meth[8]]
            return some(in_range(ex, ty), ex)
        if meth in ("wrapping_add", "wrapping_sub", "wrapping_mul"):
            ex = {"a": a.e + b.e, "s": a.e - b.e, "m": a.e * b.e}[meth[9]]
            return IntV(z3.If(in_range(ex, ty), ex, wrap(ex, ty)), ty)
        if meth in ("overflowing_add", "overflowing_sub", "overflowing_mul"):
            ex = {"a": a.e + b.e, "s": a.e - b.e, "m": a.e * b.e}[meth[12]]
            ok = in_range(ex, ty)
            return Agg("tuple", "(int,bool)", [IntV(z3.If(ok, ex, wrap(ex, ty)), ty), BoolV(z3.Not(ok))])
        if meth in ("saturating_add", "saturating_sub"):
            ex = a.e + b.e if meth.endswith("add") else a.e - b.e
            lo, hi = trange(ty)
            return IntV(z3.If(ex > hi, hi, z3.If(ex < lo, lo, ex)), ty)
        if meth == "checked_neg":
            return some(in_range(-a.e, ty), -a.e)
        if meth == "wrapping_neg":
            return self.rvalue_neg(a)
        if meth in ("div_euclid", "rem_euclid", "checked_div_euclid", "checked_rem_euclid", "checked_div", "checked_rem"):
            lo, hi = trange(ty)
            if meth.endswith("euclid"):
                if z3.is_int_value(b.e):
                    bv = b.e.as_long()
                    if bv == 0:
                        self.panics.append((st.pc, f"{meth} by zero", "?"))
                        return IntV(0, ty)
                    # z3 div/mod are Euclidean: a = b*q + r, 0 <= r < |b|
                    q, r = a.e / b.e, a.e % b.e
                else:
                    q, r = self.fresh("qe"), self.fresh("re")
                    absb = z3.If(b.e >= 0, b.e, -b.e)
                    self.side.append(z3.Implies(b.e != 0, z3.And(a.e == q * b.e + r, r >= 0, r < absb)))
                ovf = z3.And(a.e == lo, b.e == -1) if INT_TYPES[ty][1] else z3.BoolVal(False)
                if meth.startswith("checked"):
                    ok = z3.And(b.e != 0, z3.Not(ovf))
                    return some(ok, q if "div" in meth else r)
                if not z3.is_int_value(b.e):
                    self.panics.append((z3.And(st.pc, b.e == 0), f"{meth} by zero", "?"))
                if INT_TYPES[ty][1]:
                    self.panics.append((z3.And(st.pc, ovf), f"{meth} overflow", "?"))
                return IntV(q if meth == "div_euclid" else r, ty)
            q, r = self.div_sym(a.e, b.e, ty)
            ovf = z3.And(a.e == lo, b.e == -1) if INT_TYPES[ty][1] else z3.BoolVal(False)
            return some(z3.And(b.e != 0, z3.Not(ovf)), q if meth == "checked_div" else r)
        if meth == "abs":
            lo, hi = trange(ty)
            self.panics.append((z3.And(st.pc, a.e == lo), "abs overflow", "?"))
            return IntV(z3.If(a.e >= 0, a.e, -a.e), ty)
        if meth == "unsigned_abs":
            return IntV(z3.If(a.e >= 0, a.e, -a.e), "u" + ty[1:])
        if meth == "signum":
            return IntV(z3.If(a.e > 0, 1, z3.If(a.e == 0, 0, -1)), ty)
        if meth in ("is_negative", "is_positive"):
            return BoolV(a.e < 0 if meth == "is_negative" else a.e > 0)
        if meth == "pow":
            if z3.is_int_value(a.e) and z3.is_int_value(b.e):
                v = a.e.as_long() ** b.e.as_long()
                lo, hi = trange(ty)
                if lo <= v <= hi:
                    return IntV(v, ty)
            raise Unsupported("pow with symbolic operands")
        if meth in ("min", "max"):
            return IntV(z3.If((a.e <= b.e) if meth == "min" else (a.e >= b.e), a.e, b.e), ty)
        raise Unsupported(f"integer method {ty}::{meth}")

    def option_method(self, st, meth, args, c):
        v = self.load(st, args[0]) if args else None
        if meth in ("is_some", "is_none"):
            return st, BoolV(v.disc == 1 if meth == "is_some" else v.disc == 0)
        if meth in ("unwrap", "expect"):
            self.panics.append((z3.And(st.pc, v.disc == 0), f"{c} on None", "?"))
            st2 = State(z3.And(st.pc, v.disc == 1), st.mem)
            pl = v.payload.get(1)
            if pl is None:
                return None, None
            return st2, pl[0]
        if meth == "unwrap_or":
            pl = v.payload.get(1)
            if pl is None:
                return st, args[1]
            return st, ite_val(v.disc == 1, pl[0], args[1])
        if meth == "unwrap_or_default":
            raise Unsupported(c)
        if meth in ("or", "xor", "and") and len(args) == 2:
            w = self.load(st, args[1]) if isinstance(args[1], (RefV, ConstRef)) else args[1]
            if isinstance(w, EnumV) and meth == "or":
                return st, ite_val(v.disc == 1, v, w)
            if isinstance(w, EnumV) and meth == "and":
                return st, ite_val(v.disc == 1, w, EnumV("Option", 0))
            raise Unsupported(c)
        if meth == "ok_or":
            pl = v.payload.get(1, [None])
            return st, EnumV("Result", z3.If(v.disc == 1, 0, 1), {0: pl, 1: [args[1]]})
        if meth == "ok_or_else":
            # the closure only builds the error value (message); it is not executed: the error is opaque
            pl = v.payload.get(1, [None])
            return st, EnumV("Result", z3.If(v.disc == 1, 0, 1), {0: pl, 1: [OpaqueV("error built by " + c[-60:])]})
        if meth == "map_or":
            default, clo = args[1], args[2]
            f = self.closure_body(c, clo)
            if f is None:
                raise Unsupported(f"closure body for {c}")
            pl = v.payload.get(1)
            if pl is None:
                return st, default
            sub = State(z3.And(st.pc, v.disc == 1), dict(st.mem))
            sub2, r = self.exec_fn(f, [clo, pl[0]], sub)
            if sub2 is None:
                return State(z3.And(st.pc, v.disc == 0), st.mem), default
            return State(z3.Or(z3.And(st.pc, v.disc == 0), sub2.pc), sub2.mem), ite_val(v.disc == 1, r, default)
        if meth in ("map", "and_then", "filter"):
            clo = args[1]
            f = self.closure_body(c, clo)
            if f is None:
                raise Unsupported(f"closure body for {c}")
            pl = v.payload.get(1)
            if pl is None:
                return st, EnumV("Option", 0)
            sub = State(z3.And(st.pc, v.disc == 1), dict(st.mem))
            if meth == "filter":
                # closure takes &T
                fr = self.new_frame()
                sub.mem[(fr, "_tmp")] = pl[0]
                sub2, r = self.exec_fn(f, [clo, RefV(fr, ("local", "_tmp"))], sub)
                if sub2 is None:
                    return State(z3.And(st.pc, v.disc == 0), st.mem), EnumV("Option", 0)
                keep = z3.And(v.disc == 1, r.e)
                out = EnumV("Option", z3.If(keep, 1, 0), {1: pl})
                return self.join_opt(st, v, sub2, out)
            sub2, r = self.exec_fn(f, [clo, pl[0]], sub)
            if sub2 is None:
                return State(z3.And(st.pc, v.disc == 0), st.mem), EnumV("Option", 0)
            if meth == "map":
                out = EnumV("Option", z3.If(v.disc == 1, 1, 0), {1: [r]})
            else:
                out = EnumV("Option", z3.If(v.disc == 1, r.disc, 0), r.payload)
            return self.join_opt(st, v, sub2, out)
        if meth == "ok":
            raise Unsupported(c)
        return NotImplemented

    def join_opt(self, st, v, sub2, out):
        # memory effects of closures are not supported (closures here are pure); keep caller memory
        pc = z3.Or(z3.And(st.pc, v.disc == 0), sub2.pc)
        return State(pc, st.mem), out

    def closure_body(self, callee, clo):
        m = re.search(r"\{closure@[^}]*\}", callee)
        if m:
            return self.p.closures.get(m.group(0))
        return None

    def result_method(self, st, meth, args, c):
        v = self.load(st, args[0]) if args else None
        if meth in ("is_ok", "is_err"):
            return st, BoolV(v.disc == 0 if meth == "is_ok" else v.disc == 1)
        if meth in ("unwrap", "expect"):
            self.panics.append((z3.And(st.pc, v.disc == 1), f"{c} on Err", "?"))
            pl = v.payload.get(0)
            if pl is None:
                return None, None
            return State(z3.And(st.pc, v.disc == 0), st.mem), pl[0]
        if meth == "ok":
            return st, EnumV("Option", z3.If(v.disc == 0, 1, 0), {1: v.payload.get(0, [None])})
        if meth == "unwrap_or":
            pl = v.payload.get(0)
            if pl is None:
                return st, args[1]
            return st, ite_val(v.disc == 0, pl[0], args[1])
        if meth == "map_err":
            # the closure only builds the error value: executed when it is a known closure (so that the error kind is
            # exact), opaque otherwise
            clo = args[1]
            f = self.closure_body(c, clo)
            okp = v.payload.get(0, [None])
            if f is None or v.payload.get(1) is None:
                return st, EnumV("Result", v.disc, {0: okp, 1: [OpaqueV("error built by " + c[-60:])]})
            sub = State(z3.And(st.pc, v.disc == 1), dict(st.mem))
            sub2, r = self.exec_fn(f, [clo, v.payload[1][0]], sub)
            if sub2 is None:
                return State(z3.And(st.pc, v.disc == 0), st.mem), EnumV("Result", 0, {0: okp})
            return State(z3.Or(z3.And(st.pc, v.disc == 0), sub2.pc), sub2.mem), EnumV("Result", v.disc, {0: okp, 1: [r]})
        return NotImplemented

    def std_duration(self, st, meth, args):
        # std::time::Duration modelled as struct {secs: u64, nanos: u32 < 1e9}
        if meth == "new":
            s, n = args
            carry = n.e / 1000000000
            tot = s.e + carry
            self.panics.append((z3.And(st.pc, tot > trange("u64")[1]), "overflow in Duration::new", "?"))
            return st, Agg("struct", "Duration", [IntV(tot, "u64"), IntV(n.e % 1000000000, "u32")])
        d = self.load(st, args[0])
        if meth == "as_secs":
            return st, d.fields[0]
        if meth == "subsec_nanos":
            return st, d.fields[1]
        raise Unsupported(f"Duration::{meth}")

    # -- function execution --------------------------------------------------------------------
    def new_frame(self):
        self.frame_ctr += 1
        return self.frame_ctr

    def exec_fn(self, f, args, st):
        """symbolically execute all paths of f (loop-free) from state st; returns (state at return, value)"""
        self.encoded.add(f.name)
        if len(args) != len(f.params):
            raise Unsupported(f"arity mismatch calling {f.name}")
        frame = self.new_frame()
        st0 = State(st.pc, dict(st.mem))
        for (loc, _), a in zip(f.params, args):
            st0.mem[(frame, loc)] = a
        if self.unwind and not getattr(f, "_unrolled", False):
            ub = next((n for k, n in self.unwind.items() if k in f.name), None)
            if ub is not None:
                unroll_loops(f, ub)
        order = topo_order(f)
        incoming = {b: [] for b in f.blocks}
        incoming[f.order[0]].append(st0)
        ret_states = []
        for b in order:
            ins = incoming[b]
            if not ins:
                continue
            cur = merge_states(ins)
            incoming[b] = None
            if cur is None:
                continue
            self.stats["blocks"] += 1
            stmts, term = f.blocks[b]
            for s in stmts:
                self.exec_stmt(cur, frame, s, f)
            self.exec_term(cur, frame, term, f, incoming, ret_states)
        if not ret_states:
            return None, None
        out = merge_states([s for s, _ in ret_states]) if len(ret_states) > 1 else ret_states[0][0]
        val = self.escape_refs(out.mem.get((frame, "_0"), UNIT), out, frame)
        # drop callee frame
        out.mem = {k: v for k, v in out.mem.items() if k[0] != frame}
        return out, val

    def escape_refs(self, v, st, frame):
        """references into the frame being dropped become immutable snapshots"""
        if isinstance(v, RefV) and v.frame == frame:
            return ConstRef(self.escape_refs(self.read_place(st, v.frame, v.place), st, frame))
        if isinstance(v, Agg):
            return Agg(v.kind, v.name, [self.escape_refs(x, st, frame) for x in v.fields])
        if isinstance(v, EnumV) and v.payload:
            return EnumV(v.name, v.disc, {k: [self.escape_refs(x, st, frame) for x in fs] for k, fs in v.payload.items()})
        return v

    def exec_stmt(self, st, frame, s, f):
        self.cur_state = st
        k = s[0]
        if k == "nop":
            return
        if k == "assign":
            v = self.rvalue(st, frame, s[2])
            if s[2][0] == "discriminant" and s[1][0] == "local" and isinstance(v, IntV):
                # the discriminant has the destination's declared integer type (e.g. i8 for Ordering: -1 is switched on as 255)
                ty = f.locals.get(s[1][1])
                if ty in INT_TYPES:
                    v = IntV(v.e, ty)
            self.write_place(st, frame, s[1], v)
            return
        if k == "setdisc":
            raise Unsupported("SetDiscriminant")
        raise Unsupported(f"statement {s} in {f.name}")

    def exec_term(self, st, frame, t, f, incoming, ret_states):
        k = t[0]
        if k == "goto":
            incoming[t[1]].append(st)
        elif k == "return":
            ret_states.append((st, None))
        elif k == "unreachable":
            # rustc proved this block unreachable; if our path condition for it is satisfiable the *model* is wrong
            self.unreachables.append((st.pc, f.name))
        elif k == "panic":
            self.panics.append((st.pc, t[1], f.name))
        elif k == "switch":
            v = self.operand(st, frame, t[1])
            e = self.as_int(v)
            others = []
            for key, tgt in t[2]:
                if key == "otherwise":
                    cond = z3.And(*[e != o for o in others]) if others else z3.BoolVal(True)
                else:
                    kv = int(key)
                    # switch values are printed as unsigned bit patterns for negative discriminants
                    if isinstance(v, EnumV) or (isinstance(v, IntV) and INT_TYPES[v.ty][1]):
                        bits = INT_TYPES[v.ty][0] if isinstance(v, IntV) else 64
                        if kv >= (1 << (bits - 1)):
                            kv -= 1 << bits
                    cond = e == kv
                    others.append(kv)
                cond = z3.simplify(cond)
                if z3.is_false(cond):
                    continue
                ns = State(z3.And(st.pc, cond) if not z3.is_true(cond) else st.pc, dict(st.mem))
                incoming[tgt].append(ns)
        elif k == "assert":
            c = self.operand(st, frame, t[1])
            ce = z3.Not(c.e) if t[2] else c.e
            ce = z3.simplify(ce)
            if not z3.is_true(ce):
                self.panics.append((z3.And(st.pc, z3.Not(ce)), t[3], f.name))
                st = State(z3.And(st.pc, ce), dict(st.mem))
                # `assert(!(_x.1))` on an overflow tuple: on the success edge _x.0 is the exact result
                op = t[1]
                if t[2] and op[0] == "place" and op[1][0] == "field" and op[1][2] == 1 and op[1][1][0] == "local":
                    key = (frame, op[1][1][1])
                    tup = st.mem.get(key)
                    if isinstance(tup, Agg) and tup.exact is not None:
                        st.mem[key] = Agg("tuple", "(int,bool)", [tup.exact[0], BoolV(False)])
            if not z3.is_false(ce):
                incoming[t[4]].append(st)
        elif k == "call":
            dest, callee, aops, ret = t[1], t[2], t[3], t[4]
            args = [self.operand(st, frame, o) for o in aops]
            st2, val = self.call(st, frame, callee, args)
            if st2 is None or ret is None:
                return
            st2 = State(st2.pc, dict(st2.mem))
            if dest is not None:
                self.write_place(st2, frame, dest, val if val is not None else UNIT)
            incoming[ret].append(st2)
        else:
            raise Unsupported(f"terminator {t} in {f.name}")


class ConstRef:
    """reference to an immutable constant value"""
    __slots__ = ("v",)

    def __init__(self, v):
        self.v = v


class Downcast:
    __slots__ = ("enum", "variant")

    def __init__(self, enum, variant):
        self.enum = enum
        self.variant = variant


def _fits_all(ty):
    return True


def _impl_self_matches(prog, name, owner):
    mi = re.search(r"<impl at (src/[^:]+):(\d+):", name)
    if not mi:
        return False
    hdr = prog.impl_header(mi.group(1), int(mi.group(2)))
    return bool(hdr) and _base(hdr[1]) == _base(owner)


def _trait_args_match(impl_trait, call_trait):
    a = re.sub(r"\s+", "", impl_trait or "")
    b = re.sub(r"\s+", "", call_trait)
    if "<" not in b:
        return "<" not in a or True
    return a.split("::")[-1] == b.split("::")[-1] or _base(a) == _base(b) and a[a.index("<"):] == b[b.index("<"):] if "<" in a else False


def _bind_generics(impl_self, actual):
    """impl_self like 'DateTime<Tz>', actual like 'DateTime<Utc>' -> {'Tz': 'Utc'}"""
    env = {}
    if "<" in impl_self and "<" in actual:
        ps = split_top(impl_self[impl_self.index("<") + 1:impl_self.rindex(">")])
        qs = split_top(actual[actual.index("<") + 1:actual.rindex(">")])
        for p_, q_ in zip(ps, qs):
            if re.fullmatch(r"[A-Z]\w*", p_) and p_ != q_:
                env[p_] = q_
    return env


def _succ(t):
    k = t[0]
    if k == "goto":
        return [t[1]]
    if k == "switch":
        return [x for _, x in t[2]]
    if k == "assert":
        return [t[4]]
    if k == "call":
        return [t[4]] if t[4] else []
    return []


def _retarget(t, mp):
    """terminator with successor names mapped through mp"""
    k = t[0]
    g = lambda x: mp.get(x, x)
    if k == "goto":
        return ("goto", g(t[1]))
    if k == "switch":
        return ("switch", t[1], [(v, g(x)) for v, x in t[2]])
    if k == "assert":
        return t[:4] + (g(t[4]),) + t[5:]
    if k == "call":
        return t[:4] + ((g(t[4]) if t[4] else t[4]),) + t[5:]
    return t


def unroll_loops(f, n):
    """bounded unrolling as a CFG transform (done once per function): every natural loop is replaced by n copies of its
    body; the back edge of the last copy leads to a block that calls core::panicking::panic_fmt ("unwinding bound"), i.e.
    exceeding the bound is a panic edge that no_panic() has to refute -- the unrolling is checked, never silently cut.
    Only non-nested loops are handled (inner loops first would be needed otherwise)."""
    for _round in range(8):
        succ = {b: _succ(t) for b, (_, t) in f.blocks.items()}
        entry = f.order[0]
        # find one back edge by DFS
        state, back = {}, None
        stack = [(entry, iter(succ[entry]))]
        state[entry] = 1
        while stack and back is None:
            b, it = stack[-1]
            nxt = next(it, None)
            if nxt is None:
                state[b] = 2
                stack.pop()
            elif state.get(nxt) == 1:
                back = (b, nxt)
            elif nxt not in state:
                state[nxt] = 1
                stack.append((nxt, iter(succ.get(nxt, []))))
        if back is None:
            f._unrolled = True
            return
        tail, header = back
        # natural loop: header + everything that reaches tail without passing through header
        pred = {}
        for b, ss in succ.items():
            for x in ss:
                pred.setdefault(x, []).append(b)
        body = {header, tail}
        work = [tail] if tail != header else []
        while work:
            x = work.pop()
            for q in pred.get(x, []):
                if q not in body:
                    body.add(q)
                    work.append(q)
        fail = f"bb_unwind_{header}"
        f.blocks[fail] = ([], ("call", None, "core::panicking::panic_fmt", [], None))
        f.order.append(fail)
        orig = {b: f.blocks[b] for b in body}
        # copy 0 keeps the original names; copy k (k >= 1) is named b#k
        name = lambda b, k: b if k == 0 else f"{b}#{k}"
        for k in range(n):
            nxt_header = name(header, k + 1) if k + 1 < n else fail
            mp = {b: name(b, k) for b in body}
            mp_back = dict(mp)
            for b in body:
                stm, t = orig[b]
                # edges to the header from inside the loop are back edges: they go to the next copy
                t2 = _retarget(t, {**{x: mp[x] for x in body if x != header}, header: nxt_header})
                f.blocks[name(b, k)] = (stm, t2)
                if k > 0:
                    f.order.append(name(b, k))
    raise Unsupported(f"too many loops in {f.name}")


def topo_order(f):
    succ = {}
    for b, (_, t) in f.blocks.items():
        k = t[0]
        if k == "goto":
            succ[b] = [t[1]]
        elif k == "switch":
            succ[b] = [x for _, x in t[2]]
        elif k == "assert":
            succ[b] = [t[4]]
        elif k == "call":
            succ[b] = [t[4]] if t[4] else []
        else:
            succ[b] = []
    order, state = [], {}
    entry = f.order[0]
    stack = [(entry, iter(succ[entry]))]
    state[entry] = 1
    while stack:
        b, it = stack[-1]
        nxt = next(it, None)
        if nxt is None:
            state[b] = 2
            order.append(b)
            stack.pop()
        elif state.get(nxt) == 1:
            raise Unsupported(f"loop in {f.name} ({b} -> {nxt})")
        elif nxt not in state:
            if nxt not in f.blocks:
                raise Unsupported(f"unknown block {nxt} in {f.name}")
            state[nxt] = 1
            stack.append((nxt, iter(succ[nxt])))
    order.reverse()
    return order


def merge_states(states):
    states = [s for s in states if not z3.is_false(z3.simplify(s.pc)) or True]
    if not states:
        return None
    if len(states) == 1:
        return states[0]
    acc = states[0]
    for s in states[1:]:
        mem = {}
        for k in set(acc.mem) | set(s.mem):
            a, b = acc.mem.get(k), s.mem.get(k)
            if a is b:
                mem[k] = a
            elif a is None:
                mem[k] = b
            elif b is None:
                mem[k] = a
            else:
                try:
                    mem[k] = ite_val(s.pc, b, a, (s, acc))
                except Unsupported as e:
                    # possibly a temporary that is dead at the join; if it is ever read the obligation is inconclusive
                    mem[k] = Poison(str(e))
        acc = State(z3.Or(acc.pc, s.pc), mem)
    return acc
