#!/usr/bin/env python3-vt
"""run_one.py <obligation> --tier T --seed S --mir FILE --src DIR --probe BIN [--known-json FILE] -> JSON result on stdout"""
import argparse
import glob
import importlib.util
import json
import os
import random
import subprocess
import sys
import time
import traceback

HERE = os.path.dirname(os.path.abspath(__file__))
if os.environ.get("MIRSMT_VERBOSE"):
    import faulthandler, signal
    faulthandler.register(signal.SIGUSR1, all_threads=True)
sys.path.insert(0, HERE)
import z3  # noqa: E402
import api  # noqa: E402
import symex  # noqa: E402
import probes  # noqa: E402


def load_specs():
    for p in sorted(glob.glob(os.path.join(HERE, "specs", "c*.py"))):
        spec = importlib.util.spec_from_file_location("spec_" + os.path.basename(p)[:-3], p)
        m = importlib.util.module_from_spec(spec)
        spec.loader.exec_module(m)


def native(probe_bin, name, tuples):
    inp = "\n".join(name + " " + " ".join(str(x) for x in t) for t in tuples) + "\n"
    r = subprocess.run([probe_bin], input=inp, capture_output=True, text=True, timeout=600)
    outs = []
    for l in r.stdout.splitlines():
        l = l.strip()
        if l == "PANIC":
            outs.append("PANIC")
        elif l.startswith("OUT"):
            outs.append([int(x) for x in l.split()[1:]])
    if len(outs) != len(tuples):
        raise RuntimeError(f"probe protocol error: {len(outs)} answers for {len(tuples)} inputs; stderr={r.stderr[-400:]}")
    return outs


def encoded_eval(ctx, pr, values):
    """evaluate the encoding at concrete inputs: ('PANIC' | list of ints | None when inputs violate the precondition)"""
    s = z3.Solver()
    s.set("timeout", 20000)
    for a in ctx.assume:
        s.add(a)
    for a in ctx.ex.side:
        s.add(a)
    for (nm, ty, var), val in zip(ctx.inputs, values):
        s.add(var == val)
    if s.check() != z3.sat:
        return None
    m = s.model()
    for cond, msg, fn in ctx.ex.panics:
        if z3.is_true(m.eval(cond, model_completion=True)):
            return "PANIC"
    outs = pr["flatten"](ctx)
    res = []
    for e in outs:
        v = m.eval(e, model_completion=True)
        if z3.is_int_value(v):
            res.append(v.as_long())
        elif z3.is_true(v):
            res.append(1)
        elif z3.is_false(v):
            res.append(0)
        else:
            raise RuntimeError(f"cannot evaluate {e}")
    return pr.get("post", lambda r: r)(res)


def gen_tuples(ctx, pr, seed, count):
    rnd = random.Random(seed)
    tuples = []
    special = pr.get("special", [])
    for t in special:
        tuples.append(tuple(t))
    per = []
    for nm, ty, var in ctx.inputs:
        lo, hi = symex.trange(ty)
        c = {lo, lo + 1, hi, hi - 1, 0, 1, -1 if lo < 0 else 2}
        c |= set(pr.get("interesting", {}).get(nm, []))
        per.append((sorted(x for x in c if lo <= x <= hi), lo, hi, pr.get("range", {}).get(nm)))
    while len(tuples) < count:
        t = []
        for cands, lo, hi, rg in per:
            k = rnd.random()
            if k < 0.35:
                t.append(rnd.choice(cands))
            elif k < 0.8 and rg:
                t.append(rnd.randint(rg[0], rg[1]))
            elif k < 0.85:
                t.append(rnd.choice(cands) + rnd.randint(-3, 3))
                t[-1] = min(hi, max(lo, t[-1]))
            else:
                t.append(rnd.randint(lo, hi))
        tuples.append(tuple(t))
    return tuples


def main():
    ap = argparse.ArgumentParser()
    ap.add_argument("name")
    ap.add_argument("--tier", default="quick")
    ap.add_argument("--seed", type=int, default=0)
    ap.add_argument("--mir", required=True)
    ap.add_argument("--src", required=True)
    ap.add_argument("--probe", default=None)
    ap.add_argument("--known-json", default=None)
    ap.add_argument("--shard", default="0/1")
    a = ap.parse_args()
    t0 = time.time()
    load_specs()
    ob = next((o for o in api.REGISTRY if o.name == a.name), None)
    res = {"obligation": "M:" + a.name, "desc": ob.desc if ob else "", "bounds": ob.bounds if ob else "", "outside": ob.outside if ob else "",
           "solver": "z3 " + z3.get_version_string() + " (Int theory; arith.solver=2 then default)"}
    if ob is None:
        res.update(verdict="error", why="unknown obligation")
        print(json.dumps(res))
        return
    known = {}
    if a.known_json:
        known = json.load(open(a.known_json))
    prog = symex.Program(open(a.mir).read(), a.src)
    si, sn = (int(x) for x in a.shard.split("/"))
    ctx = api.Ctx(prog, a.tier, known, per_query_timeout=min(ob.timeout, 600), shard=(si, sn))
    pr = probes.PROBES.get(ob.probe) if ob.probe else None
    try:
        ob.fn(ctx)
        verdict, why = "held", None
    except api.Violation as v:
        verdict, why = "violation", f"claim `{v.claim}` fails"
        vals = []
        for nm, ty, var in ctx.inputs:
            mv = v.model.eval(var, model_completion=True)
            vals.append(mv.as_long())
        res["counterexample"] = {nm: val for (nm, _, _), val in zip(ctx.inputs, vals)}
        # replay natively
        if pr and a.probe:
            try:
                nat = native(a.probe, ob.probe, [vals])[0]
                enc = encoded_eval(ctx, pr, vals)
                res["native_replay"] = {"native": nat, "encoding": enc}
                if str(v.claim).startswith("no_panic") and nat != "PANIC":
                    verdict, why = "unreplayed", f"panic edge reported by the encoding but the native code returned {nat} at the model: spec/model artefact"
                elif nat != enc:
                    verdict, why = "unreplayed", f"native result {nat} differs from the encoding's {enc} at the counterexample: translator/model error"
            except Exception as e:
                verdict, why = "unreplayed", f"native replay failed: {e!r}"
        else:
            verdict, why = "unreplayed", why + " (no native probe to replay with)"
    except api.Inconclusive as e:
        verdict, why = "inconclusive", str(e)
    except symex.Unsupported as e:
        verdict, why = "inconclusive", "MIR outside the supported subset: " + str(e)
    except Exception as e:
        verdict, why = "error", "".join(traceback.format_exception_only(type(e), e)).strip() + " @ " + traceback.format_exc().splitlines()[-3].strip()
    # translator validation on concrete tuples
    if verdict == "held" and pr and a.probe and si == 0:
        try:
            n = 150 if a.tier == "quick" else 1500
            want = 40 if a.tier == "quick" else 400
            bad = []
            used = 0
            tuples, nat = [], []
            for batch in range(12):
                tb = gen_tuples(ctx, pr, a.seed + 7919 * batch, n)
                nb = native(a.probe, ob.probe, tb)
                if not tuples:
                    tuples, nat = tb, nb
                for t, nv in zip(tb, nb):
                    ev = encoded_eval(ctx, pr, list(t))
                    if ev is None:
                        continue
                    used += 1
                    if ev != nv:
                        bad.append({"input": t, "native": nv, "encoding": ev})
                if used >= want or bad:
                    break
            res["validation"] = {"tuples": used, "mismatches": len(bad), "sample": [list(tuples[0]), nat[0]]}
            if bad:
                verdict, why = "error", f"translator validation failed: encoding disagrees with native code on {len(bad)} of {used} tuples, e.g. {bad[0]}"
            elif used < 20:
                verdict, why = "error", f"translator validation used only {used} tuples"
        except Exception as e:
            verdict, why = "error", f"translator validation could not run: {e!r}"
    res.update(verdict=verdict, queries=ctx.queries, solver_s=round(ctx.solver_s, 2), vacuity_sat=ctx.vacuity_sat,
               functions=", ".join(sorted(_short(n) for n in ctx.ex.encoded)), claims=ctx.claims_done,
               cuts=[c[0] for c in ctx.cuts], panic_edges=len(ctx.ex.panics), known_finding_lines=ctx.kf_lines,
               wall_s=round(time.time() - t0, 2), log=ctx.log[-60:], stats=ctx.ex.stats)
    if why:
        res["why"] = why
    if verdict == "held" and ctx.vacuity_sat == 0:
        res["verdict"] = "vacuous"
        res["why"] = "no reachability witness was checked"
    # cvc5 cross-check of the unsat queries (thorough tier)
    if verdict == "held" and a.tier == "thorough" and ctx.smt2:
        res["cvc5"] = cvc5_check(ctx.smt2[:12])
        if res["cvc5"].get("disagree"):
            res["verdict"] = "inconclusive"
            res["why"] = f"cvc5 disagrees with z3 on {res['cvc5']['disagree']}"
    print(json.dumps(res))


def _short(n):
    import re
    return re.sub(r"<impl at [^>]*>::", "", n)


def cvc5_check(items):
    out = {"checked": 0, "unsat": 0, "unknown": 0, "disagree": []}
    for name, txt in items:
        p = f"/tmp/mirsmt-{os.getpid()}.smt2"
        with open(p, "w") as f:
            f.write("(set-logic ALL)\n" + txt)
        try:
            r = subprocess.run(["cvc5", "--lang", "smt2", "--tlimit=60000", p], capture_output=True, text=True, timeout=90)
            ans = r.stdout.strip().splitlines()[0] if r.stdout.strip() else "unknown"
        except Exception:
            ans = "unknown"
        finally:
            try:
                os.remove(p)
            except OSError:
                pass
        out["checked"] += 1
        if ans == "unsat":
            out["unsat"] += 1
        elif ans == "sat":
            out["disagree"].append(name)
        else:
            out["unknown"] += 1
    return out


if __name__ == "__main__":
    main()
