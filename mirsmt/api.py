"""Obligation API for Engine M (MIR -> SMT).  A spec module defines functions decorated with @obligation.

    @obligation(prop="C01", tier="quick", timeout=300, desc=..., bounds=..., probes=[...])
    def c01_daynum_from(o):
        n = o.input("n", "i32")
        r = o.call("NaiveDate::from_num_days_from_ce_opt", n)   # symbolic execution of the real MIR
        o.no_panic()                                            # every panic edge unreachable
        o.cut("name", formula)                                  # proved, then available as an assumption
        o.claim("name", formula, splits=[...])                  # proved (per split, splits must cover)

Every claim is decided by z3 (unsat of the negation under the input-range assumptions, the path condition
of normal return, proved cuts and division lemmas). `sat` models are replayed against the native code via
the probe binary before being reported; `unknown` / timeouts / unsupported MIR make the obligation
inconclusive, never held.
"""
import time
import z3

import symex
from symex import IntV, BoolV, Agg, EnumV, State, Unsupported, trange, INT_TYPES

REGISTRY = []


class Ob:
    def __init__(self, fn, prop, tier, timeout, desc, bounds, probe, outside, kf, shards=1, features="std", also=()):
        self.also = list(also)   # further properties this obligation is evidence for (e.g. its no_panic claim for C15)
        self.shards = shards
        self.features = features
        self.fn = fn
        self.name = fn.__name__
        self.prop = prop
        self.tier = tier
        self.timeout = timeout
        self.desc = desc
        self.bounds = bounds
        self.probe = probe
        self.outside = outside
        self.kf = kf or []


def obligation(prop, tier="quick", timeout=600, desc="", bounds="", probe=None, outside="", kf=None, shards=1, features="std", also=()):
    def deco(fn):
        REGISTRY.append(Ob(fn, prop, tier, timeout, desc, bounds, probe, outside, kf, shards, features, also))
        return fn

    return deco


class Inconclusive(Exception):
    pass


class Violation(Exception):
    def __init__(self, claim, model):
        self.claim = claim
        self.model = model


class Ctx:
    """one obligation run"""

    def __init__(self, prog, tier, known=None, per_query_timeout=300, shard=(0, 1)):
        self.shard = shard
        self.prog = prog
        self.tier = tier
        self.ex = symex.Executor(prog)
        self.inputs = []  # (name, ty, z3 var)
        self.assume = []  # input constraints
        self.cuts = []
        self.state = State(z3.BoolVal(True), {})
        self.queries = 0
        self.solver_s = 0.0
        self.log = []
        self.known = known or {}
        self.kf_lines = []
        self.per_query_timeout = per_query_timeout
        self.vacuity_sat = 0
        self.smt2 = []  # (name, smt2 text) for the cvc5 cross-check
        self.claims_done = []
        self.results = {}  # name -> (symbolic result, state) of calls, for validation
        import os
        self.verbose = bool(os.environ.get("MIRSMT_VERBOSE"))

    # -- inputs --------------------------------------------------------------------------------
    def input(self, name, ty):
        v = z3.Int(name)
        lo, hi = trange(ty)
        self.inputs.append((name, ty, v))
        self.assume.append(z3.And(v >= lo, v <= hi))
        self.ex.assumptions = self.assume + [c[1] for c in self.cuts]
        return IntV(v, ty)

    def require(self, cond):
        """input precondition (documented validity of an argument)"""
        self.assume.append(cond)
        self.ex.assumptions = self.assume + [c[1] for c in self.cuts]

    def set_tyenv(self, **kw):
        self.ex.tyenv.update(kw)

    # -- execution -----------------------------------------------------------------------------
    def call(self, path, *args, name=None, when=None, ghost=False):
        """when: the call is only made where `when` holds (e.g. on the payload of a Some); its panic edges and its
        normal-return condition are restricted accordingly, the result is meaningful only under `when`.
        ghost: a specification-only replay of a pure sub-computation that the function under test performs itself
        (to name its intermediate terms); its panic edges are duplicates of the real call's and are not recorded, and
        it does not constrain the normal-return condition."""
        if ghost:
            n = len(self.ex.panics)
            saved = self.state
            try:
                v = self.call(path, *args, name=name, when=when)
            finally:
                del self.ex.panics[n:]
                self.state = State(saved.pc, self.state.mem)
            return v
        if when is not None:
            saved = self.state
            self.state = State(z3.And(saved.pc, when), saved.mem)
            try:
                v = self.call(path, *args, name=name)
            finally:
                after = self.state
                self.state = State(z3.Or(z3.And(saved.pc, z3.Not(when)), after.pc), after.mem)
            return v
        st0 = State(z3.And(self.state.pc, *self.assume) if self.assume else self.state.pc, dict(self.state.mem))
        r = self.ex.intrinsic(st0, path, list(args))
        if r is not NotImplemented:
            st2, v = r
            if st2 is None:
                raise Unsupported(f"{path} never returns normally")
            self.state = State(st2.pc, st2.mem)
            return v
        f, env = self.ex.resolve(path, list(args))
        if f is None:
            raise Unsupported(f"entry point {path} not found in MIR")
        saved = self.ex.tyenv
        self.ex.tyenv = dict(saved)
        self.ex.tyenv.update(env)
        st = State(z3.And(self.state.pc, *self.assume) if self.assume else self.state.pc, dict(self.state.mem))
        try:
            st2, v = self.ex.exec_fn(f, list(args), st)
        finally:
            self.ex.tyenv = saved
        if st2 is None:
            raise Unsupported(f"{path} never returns normally")
        self.state = State(st2.pc, st2.mem)
        self.results[name or path] = v
        return v

    def call_named(self, pattern, *args, name=None):
        """call the unique MIR body whose raw name matches the regex `pattern`"""
        import re as _re
        cands = [f for f in self.prog.runtime if _re.search(pattern, f.name)]
        if len(cands) != 1:
            raise Unsupported(f"call_named({pattern!r}): {len(cands)} candidates")
        f = cands[0]
        st = State(z3.And(self.state.pc, *self.assume) if self.assume else self.state.pc, dict(self.state.mem))
        st2, v = self.ex.exec_fn(f, list(args), st)
        if st2 is None:
            raise Unsupported(f"{f.name} never returns normally")
        self.state = State(st2.pc, st2.mem)
        self.results[name or pattern] = v
        return v

    def summarize_raw(self, regex, fn):
        """contract for calls whose callee text matches `regex` (generic trait calls such as <S as Serializer>::serialize_i64)"""
        self.ex.raw_summaries.append((regex, fn))

    def unwind(self, name_part, n):
        """unroll the loops of functions whose MIR name contains `name_part` n times; exceeding the bound is a panic
        edge (refuted by no_panic), so the bound is checked"""
        self.ex.unwind[name_part] = n

    def summarize(self, short_name, fn):
        """use a contract (proved by another obligation) in place of a callee's body -- assume/guarantee composition"""
        self.ex.summaries[short_name] = fn

    def cast(self, v, ty):
        """the executor's own IntToInt cast (same term the code's cast produces under the current path condition)"""
        self.ex.cur_state = State(z3.And(self.state.pc, *self.assume) if self.assume else self.state.pc, self.state.mem)
        return self.ex.cast(v, ty, "IntToInt")

    def ref(self, v):
        """pass a value by reference"""
        return symex.ConstRef(v)

    # -- solving -------------------------------------------------------------------------------
    def _solver(self, cfg, tmo, seed, with_pc=True):
        s = z3.Solver()
        if cfg == "old":
            s.set("arith.solver", 2)
        s.set("timeout", int(tmo * 1000))
        if seed:
            s.set("random_seed", seed)
        for a in self.assume:
            s.add(a)
        for a in self.ex.side:
            s.add(a)
        for c in self.cuts:
            if with_pc or len(c) < 3:
                s.add(c[1])
            else:
                # outside normal return (panic edges): a cut is only known where its own premises hold
                s.add(z3.Implies(c[2], c[1]))
        if with_pc:
            s.add(self.state.pc)  # claims / cuts are about normal return of the calls made so far
        return s

    def check_sat(self, extra, name, budget=None, with_pc=True):
        """returns ('unsat'|'sat'|'unknown', model). Portfolio: both arithmetic back ends of z3, escalating timeouts
        (solver time on these div/mod-heavy queries varies by orders of magnitude between configurations)."""
        last = None
        T = self.per_query_timeout
        # many short attempts with different seeds first: easy queries are decided in well under a second by *some*
        # configuration, while a single unlucky (back end, seed) pair can burn its whole budget
        # (observed: the same query is decided in 4 s by one seed and not within 90 s by another, so the default seed
        # gets a medium budget before other seeds get a long one; giving it that budget EARLIER made every obligation with
        # many 10-20 s queries several times slower and was reverted)
        plan = [("old", 2, 0), ("new", 2, 0), ("old", 2, 7), ("new", 2, 11), ("old", 6, 13), ("new", 6, 17),
                ("new", 20, 3), ("old", 20, 5), ("new", 40, 0), ("new", 90, 23), ("old", 90, 29)]
        if T > 90:
            plan += [("new", T, 0), ("old", T, 0)]
        if budget:
            plan = [("old", 2, 0), ("new", 2, 0), ("old", 4, 7), ("new", budget, 5)]
        for cfg, tmo, seed in plan:
            s = self._solver(cfg, tmo, seed, with_pc)
            for e in extra:
                s.add(e)
            t0 = time.time()
            r = s.check()
            dt = time.time() - t0
            self.queries += 1
            self.solver_s += dt
            if r != z3.unknown or tmo >= 90:
                self.log.append(f"{name} [{cfg},{tmo}s] {r} {dt:.2f}s")
                if self.verbose:
                    import sys
                    print(self.log[-1], file=sys.stderr, flush=True)
            if r == z3.unsat:
                if self.tier == "thorough" and len(self.smt2) < 40:
                    self.smt2.append((name, s.to_smt2()))
                return "unsat", None
            if r == z3.sat:
                return "sat", s.model()
            last = s.reason_unknown()
        return "unknown", last

    def _prove(self, name, formula, splits, under_return=True):
        pre = [self.state.pc] if under_return else []
        si, sn = self.shard
        if splits and si == 0:
            # the splits must cover the input space
            r, m = self.check_sat(pre + [z3.Not(z3.Or(*splits))], name + "/cover")
            if r != "unsat":
                raise Inconclusive(f"{name}: case split does not provably cover the domain ({r})")
        if not splits and si != 0:
            return  # unsplit claims are discharged by shard 0
        for i, sp in enumerate(splits or [z3.BoolVal(True)]):
            if splits and i % sn != si:
                continue
            r, m = self.check_sat(pre + [sp, z3.Not(formula)], f"{name}/{i}" if splits else name)
            if r == "sat":
                raise Violation(name, m)
            if r != "unsat":
                raise Inconclusive(f"{name}: solver answered unknown ({m}) on split {i}")

    def cut(self, name, formula, splits=None):
        """intermediate lemma: proved under the same premises, then assumed (sound: it is valid whenever the function returns)"""
        self._prove("cut:" + name, formula, splits)
        self.cuts.append((name, formula, self.state.pc))
        self.ex.assumptions = self.assume + [c[1] for c in self.cuts]

    def lemma(self, name, vars_, formula):
        """pure arithmetic lemma over the free variables vars_ (no program terms): validity is proved by z3 (negation
        unsat), then instances can be added with use_lemma"""
        self.lemmas = getattr(self, "lemmas", {})
        self.lemmas[name] = (vars_, formula)
        if self.shard[0] != 0:
            return
        for cfg in ("old", "new"):
            s = z3.Solver()
            if cfg == "old":
                s.set("arith.solver", 2)
            s.set("timeout", 60000)
            s.add(z3.Not(formula))
            t0 = time.time()
            r = s.check()
            self.queries += 1
            self.solver_s += time.time() - t0
            self.log.append(f"lemma:{name} [{cfg}] {r}")
            if r == z3.unsat:
                return
            if r == z3.sat:
                raise Inconclusive(f"lemma {name} is false: {s.model()}")
        raise Inconclusive(f"lemma {name}: unknown")

    def use_lemma(self, name, *terms):
        vars_, formula = self.lemmas[name]
        inst = z3.substitute(formula, *[(v, t) for v, t in zip(vars_, terms)])
        self.cuts.append((f"{name}@inst", inst))
        self.ex.assumptions = self.assume + [c[1] for c in self.cuts]

    def claim(self, name, formula, splits=None, kf=None):
        """kf: (finding id, predicate over inputs) -- when the finding is listed as known, the claim is proved outside the
        predicate and the predicate region must still contain a violation (else nothing is reported)"""
        if kf and kf[0] in self.known:
            fid, pred = kf
            self._prove(name + f"[outside {fid}]", z3.Implies(z3.Not(pred), formula), splits)
            r, m = self.check_sat([self.state.pc, pred, z3.Not(formula)], name + f"[witness {fid}]")
            if r == "sat":
                k = self.known[fid]
                self.kf_lines.append(f"KNOWN-FINDING: property={k['property']} {fid} {k['entry_point']}: {k['fails_on']}")
        else:
            self._prove(name, formula, splits)
        self.claims_done.append(name)

    def no_panic(self, name="no_panic", kf=None):
        """every collected panic edge is unreachable under the input assumptions"""
        if self.shard[0] != 0:
            return
        # self-check of the executor: blocks that rustc marked `unreachable` must be infeasible in the encoding too
        for i, (cond, fn) in enumerate(self.ex.unreachables[getattr(self, "_unreach_done", 0):]):
            r, m = self.check_sat([cond], f"{name}/unreachable{i}", with_pc=False)
            if r != "unsat":
                raise Inconclusive(f"executor self-check failed: an `unreachable` block of {fn} is feasible in the encoding ({r}) -- modelling error")
        self._unreach_done = len(self.ex.unreachables)
        for i, (cond, msg, fn) in enumerate(self.ex.panics):
            extra = [cond]
            if kf and kf[0] in self.known:
                extra.append(z3.Not(kf[1]))
            r, m = self.check_sat(extra, f"{name}/{i}", with_pc=False)
            if r == "sat":
                raise Violation(f"{name}: reachable panic `{msg}` in {fn}", m)
            if r != "unsat":
                raise Inconclusive(f"{name}: unknown on panic edge {i} `{msg}`")
        if kf and kf[0] in self.known:
            for i, (cond, msg, fn) in enumerate(self.ex.panics):
                r, m = self.check_sat([cond, kf[1]], f"{name}/witness{i}", with_pc=False)
                if r == "sat":
                    k = self.known[kf[0]]
                    self.kf_lines.append(f"KNOWN-FINDING: property={k['property']} {kf[0]} {k['entry_point']}: {k['fails_on']}")
                    break
        self.claims_done.append(f"{name} ({len(self.ex.panics)} panic edges)")

    def reachable(self, name, cond):
        """vacuity witness: cond must be satisfiable together with normal return"""
        if self.shard[0] != 0:
            self.vacuity_sat += 1
            return
        r, m = self.check_sat([self.state.pc, cond], "reach:" + name, budget=25)
        if r == "sat":
            self.vacuity_sat += 1
            return
        if r == "unknown":
            self.log.append(f"reach:{name} undecided within budget (not counted as a witness)")
            return
        raise Inconclusive(f"vacuity witness {name} not satisfiable ({r})")


# helpers for specs -----------------------------------------------------------------------------

def opt_is_some(v):
    return v.disc == 1


def opt_payload(v):
    return v.payload[1][0]


def fdiv(a, b):
    """floor division by a positive constant"""
    return a / b


def field(v, i):
    return v.fields[i]
