#!/bin/sh
# Offline setup: nothing to download or install; warm one Kani build so that a broken tool chain shows up here.
set -e
cd "$(dirname "$0")"
export CARGO_NET_OFFLINE=true
mkdir -p evidence replays /root/.cache/verif-work
cp /repo/Cargo.lock kani/Cargo.lock
python3-vt -c "import z3, json; print('z3', z3.get_version_string())"
cargo kani --version
(cd kani && RUSTFLAGS="--cfg chrono_verif" cargo kani --target-dir /root/.cache/verif-work/kani-slot0 --only-codegen >/root/.cache/verif-work/setup.log 2>&1) || { tail -30 /root/.cache/verif-work/setup.log; exit 1; }
echo setup ok
