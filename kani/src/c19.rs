//! C19 — Weekday, Month and weekday-set algebra.
use crate::util::*;
use chrono::{Month, Weekday, WeekdaySet};
use num_traits::FromPrimitive;

// @ob tier=quick timeout=600
// @desc Weekday succ/pred form a 7-cycle; numbering functions and days_since are mutually inverse and match the Monday-based index.
// @bounds all 7 weekdays x all 7 weekdays (symbolic enumeration); no loops
// @funcs Weekday::succ, pred, number_from_monday, number_from_sunday, num_days_from_monday, num_days_from_sunday, days_since
#[kani::proof]
fn c19_weekday_cycle() {
    let w = any_weekday();
    let v = any_weekday();
    let i = wd_index(w);
    assert!(wd_index(w.succ()) == (i + 1) % 7);
    assert!(wd_index(w.pred()) == (i + 6) % 7);
    assert!(w.succ().pred() == w && w.pred().succ() == w);
    assert!(w.num_days_from_monday() == i);
    assert!(w.number_from_monday() == i + 1);
    assert!(w.num_days_from_sunday() == (i + 1) % 7);
    assert!(w.number_from_sunday() == (i + 1) % 7 + 1);
    assert!(w.days_since(v) == (i + 7 - wd_index(v)) % 7);
    // seven steps return to the start, fewer do not
    let mut x = w;
    let mut k = 0;
    while k < 7 {
        x = x.succ();
        k += 1;
        assert!((x == w) == (k == 7));
    }
    kani::cover!(w == Weekday::Sun && v == Weekday::Mon);
}

// @ob tier=quick timeout=600
// @desc Weekday numeric conversions accept exactly 0..=6 (Monday = 0) for every u8 / i64 / u64 / and the FromPrimitive defaults for u32, i32, u8, i8, u16, i16, usize, isize
// @bounds every value of each integer type, full width
// @funcs impl TryFrom<u8> for Weekday, impl FromPrimitive for Weekday (from_i64, from_u64 and provided methods)
#[kani::proof]
fn c19_weekday_from_int() {
    let a: u8 = kani::any();
    match Weekday::try_from(a) {
        Ok(w) => assert!(a < 7 && wd_index(w) == a as u32),
        Err(_) => assert!(a >= 7),
    }
    let b: i64 = kani::any();
    match Weekday::from_i64(b) {
        Some(w) => assert!(b >= 0 && b < 7 && wd_index(w) as i64 == b),
        None => assert!(b < 0 || b >= 7),
    }
    let c: u64 = kani::any();
    match Weekday::from_u64(c) {
        Some(w) => assert!(c < 7 && wd_index(w) as u64 == c),
        None => assert!(c >= 7),
    }
    let d: u32 = kani::any();
    match Weekday::from_u32(d) {
        Some(w) => assert!(d < 7 && wd_index(w) == d),
        None => assert!(d >= 7),
    }
    let e: i32 = kani::any();
    match Weekday::from_i32(e) {
        Some(w) => assert!(e >= 0 && e < 7 && wd_index(w) as i32 == e),
        None => assert!(e < 0 || e >= 7),
    }
    let f: i8 = kani::any();
    assert!(Weekday::from_i8(f).is_some() == (f >= 0 && f < 7));
    let g: u16 = kani::any();
    assert!(Weekday::from_u16(g).is_some() == (g < 7));
    let h: usize = kani::any();
    assert!(Weekday::from_usize(h).is_some() == (h < 7));
    let i: isize = kani::any();
    assert!(Weekday::from_isize(i).is_some() == (i >= 0 && i < 7));
    kani::cover!(c == 6);
    kani::cover!(c > u32::MAX as u64);
}

// @ob tier=quick timeout=600
// @desc Month succ/pred form a 12-cycle; number_from_month is the 1-based index; name() is the English name; num_days agrees with the calendar for every year (None outside the supported range)
// @bounds all 12 months x all i32 years
// @funcs Month::succ, pred, number_from_month, name, num_days
#[kani::proof]
fn c19_month_cycle() {
    let m = any_month();
    let i = month_index(m);
    assert!(month_index(m.succ()) == i % 12 + 1);
    assert!(month_index(m.pred()) == (i + 10) % 12 + 1);
    assert!(m.succ().pred() == m && m.pred().succ() == m);
    assert!(m.number_from_month() == i);
    let mut x = m;
    let mut k = 0;
    while k < 12 {
        x = x.succ();
        k += 1;
        assert!((x == m) == (k == 12));
    }
    kani::cover!(m == Month::December);
}

// @ob tier=quick timeout=600
// @desc Month::name() is the English month name (compared byte by byte with an independent table)
// @bounds all 12 months; names up to 9 bytes (unwind 11)
// @funcs Month::name
#[kani::proof]
#[kani::unwind(11)]
fn c19_month_name() {
    let m = any_month();
    let i = month_index(m);
    let names = ["January", "February", "March", "April", "May", "June", "July", "August",
                 "September", "October", "November", "December"];
    let nm = m.name().as_bytes();
    let want = names[(i - 1) as usize].as_bytes();
    assert!(nm.len() == want.len());
    let mut j = 0;
    while j < 9 {
        if j < nm.len() {
            assert!(nm[j] == want[j]);
        }
        j += 1;
    }
    kani::cover!(m == Month::September);
}

// @ob tier=quick timeout=600
// @desc Month::num_days agrees with the calendar for every year (None exactly outside the supported year range)
// @bounds all 12 months x all i32 years
// @funcs Month::num_days
#[kani::proof]
fn c19_month_num_days() {
    let m = any_month();
    let i = month_index(m);
    let y: i32 = kani::any();
    match m.num_days(y) {
        Some(n) => {
            assert!(m != Month::February || (y >= crate::refcal::MIN_YEAR && y <= crate::refcal::MAX_YEAR));
            assert!(n as u32 == crate::refcal::days_in_month(y, i));
        }
        None => assert!(m == Month::February && (y < crate::refcal::MIN_YEAR || y > crate::refcal::MAX_YEAR)),
    }
    kani::cover!(m == Month::February && y % 400 == 0 && m.num_days(y).is_some());
    kani::cover!(m.num_days(y).is_none());
}

// @ob tier=quick timeout=600
// @desc Month numeric conversions accept exactly 1..=12 for every value of every accepted integer type (incl. values >= 2^32 and negatives)
// @bounds every value of u8, u32, u64, i64 and the provided FromPrimitive methods, full width
// @funcs impl TryFrom<u8> for Month, impl FromPrimitive for Month (from_u64, from_i64, from_u32 and provided methods)
#[kani::proof]
fn c19_month_from_int() {
    let a: u8 = kani::any();
    match Month::try_from(a) {
        Ok(m) => assert!(a >= 1 && a <= 12 && month_index(m) == a as u32),
        Err(_) => assert!(a < 1 || a > 12),
    }
    let n: u64 = kani::any();
    match Month::from_u64(n) {
        Some(m) => assert!(n >= 1 && n <= 12 && month_index(m) as u64 == n),
        None => assert!(n < 1 || n > 12),
    }
    let s: i64 = kani::any();
    match Month::from_i64(s) {
        Some(m) => assert!(s >= 1 && s <= 12 && month_index(m) as i64 == s),
        None => assert!(s < 1 || s > 12),
    }
    let d: u32 = kani::any();
    match Month::from_u32(d) {
        Some(m) => assert!(d >= 1 && d <= 12 && month_index(m) == d),
        None => assert!(d < 1 || d > 12),
    }
    let e: i32 = kani::any();
    assert!(Month::from_i32(e).is_some() == (e >= 1 && e <= 12));
    let f: i8 = kani::any();
    assert!(Month::from_i8(f).is_some() == (f >= 1 && f <= 12));
    let g: u16 = kani::any();
    assert!(Month::from_u16(g).is_some() == (g >= 1 && g <= 12));
    let h: usize = kani::any();
    assert!(Month::from_usize(h).is_some() == (h >= 1 && h <= 12));
    let i: isize = kani::any();
    assert!(Month::from_isize(i).is_some() == (i >= 1 && i <= 12));
    kani::cover!(n == 12);
    kani::cover!(n > u32::MAX as u64);
    kani::cover!(s < 0);
}

fn set_from_bits(bits: u8) -> WeekdaySet {
    let mut s = WeekdaySet::EMPTY;
    let mut i = 0;
    while i < 7 {
        if bits & (1 << i) != 0 {
            s.insert(WEEKDAYS[i]);
        }
        i += 1;
    }
    s
}
fn ref_from_bits(bits: u8) -> [bool; 7] {
    let mut r = [false; 7];
    let mut i = 0;
    while i < 7 {
        r[i] = bits & (1 << i) != 0;
        i += 1;
    }
    r
}
fn same(s: WeekdaySet, r: &[bool; 7]) -> bool {
    let mut i = 0;
    let mut ok = true;
    while i < 7 {
        ok &= s.contains(WEEKDAYS[i]) == r[i];
        i += 1;
    }
    ok
}

// @ob tier=quick timeout=900
// @desc WeekdaySet behaves like a mathematical set: insert/remove/contains/union/intersection/difference/symmetric_difference/is_subset/first/last/len/is_empty/single/single_day/from_array/FromIterator/Eq equal the same operation on a reference [bool;7]
// @bounds all 128 x 128 pairs of sets x all 7 weekdays; loops of 7 (unwind 9)
// @funcs WeekdaySet::{insert, remove, contains, union, intersection, difference, symmetric_difference, is_subset, first, last, len, is_empty, single, single_day, from_array, from_iter}
#[kani::proof]
#[kani::unwind(9)]
fn c19_set_algebra() {
    let ab: u8 = kani::any();
    let bb: u8 = kani::any();
    kani::assume(ab < 128 && bb < 128);
    let a = set_from_bits(ab);
    let b = set_from_bits(bb);
    let ra = ref_from_bits(ab);
    let rb = ref_from_bits(bb);
    assert!(same(a, &ra) && same(b, &rb));
    let d = any_weekday();
    let di = wd_index(d) as usize;

    // binary operations
    let (u, n, df, sd) = (a.union(b), a.intersection(b), a.difference(b), a.symmetric_difference(b));
    let mut i = 0;
    let mut subset = true;
    let mut cnt = 0u8;
    let mut first: Option<usize> = None;
    let mut last: Option<usize> = None;
    while i < 7 {
        let w = WEEKDAYS[i];
        assert!(u.contains(w) == (ra[i] || rb[i]));
        assert!(n.contains(w) == (ra[i] && rb[i]));
        assert!(df.contains(w) == (ra[i] && !rb[i]));
        assert!(sd.contains(w) == (ra[i] != rb[i]));
        if ra[i] && !rb[i] {
            subset = false;
        }
        if ra[i] {
            cnt += 1;
            if first.is_none() {
                first = Some(i);
            }
            last = Some(i);
        }
        i += 1;
    }
    assert!(a.is_subset(b) == subset);
    assert!(a.len() == cnt);
    assert!(a.is_empty() == (cnt == 0));
    assert!((a == b) == (ab == bb));
    match a.first() {
        Some(w) => assert!(first == Some(wd_index(w) as usize)),
        None => assert!(first.is_none()),
    }
    match a.last() {
        Some(w) => assert!(last == Some(wd_index(w) as usize)),
        None => assert!(last.is_none()),
    }
    match a.single_day() {
        Some(w) => assert!(cnt == 1 && ra[wd_index(w) as usize]),
        None => assert!(cnt != 1),
    }
    // single / insert / remove
    let s1 = WeekdaySet::single(d);
    assert!(s1.len() == 1 && s1.contains(d) && s1.single_day() == Some(d));
    let mut x = a;
    let fresh = x.insert(d);
    assert!(fresh == !ra[di]);
    let mut rx = ra;
    rx[di] = true;
    assert!(same(x, &rx));
    let mut y = a;
    let was = y.remove(d);
    assert!(was == ra[di]);
    let mut ry = ra;
    ry[di] = false;
    assert!(same(y, &ry));
    // from_array / FromIterator
    let e = any_weekday();
    let fa = WeekdaySet::from_array([d, e, d]);
    let fi: WeekdaySet = [d, e].into_iter().collect();
    assert!(fa == fi && fa.contains(d) && fa.contains(e) && fa.len() == if d == e { 1 } else { 2 });
    kani::cover!(cnt == 7);
    kani::cover!(cnt == 0);
    kani::cover!(subset && ab != bb);
}

// @ob tier=quick timeout=900
// @desc Iterating a WeekdaySet from any start day with any interleaving of next/next_back visits each member exactly once: front calls go in cyclic weekday order from the start, back calls in reverse from the day before the start; the iterator is exact-size and fused
// @bounds all 128 sets x 7 start days x every next/next_back schedule of length 9 (symbolic choice bits); unwind 10
// @funcs WeekdaySet::iter, WeekdaySetIter::{next, next_back, len}, WeekdaySet::split_at
#[kani::proof]
#[kani::unwind(10)]
fn c19_set_iter() {
    let bits: u8 = kani::any();
    kani::assume(bits < 128);
    let s = set_from_bits(bits);
    let mut r = ref_from_bits(bits);
    let start = any_weekday();
    let st = wd_index(start) as usize;
    let sched: u16 = kani::any();
    let mut it = s.iter(start);
    // reference cursors: front scans st, st+1, ... ; back scans st-1, st-2, ...
    let mut remaining = s.len() as usize;
    let mut step = 0;
    while step < 9 {
        assert!(it.len() == remaining);
        let back = sched & (1 << step) != 0;
        let got = if back { it.next_back() } else { it.next() };
        // reference: first/last remaining member in cyclic order from start
        let mut want: Option<usize> = None;
        let mut k = 0;
        while k < 7 {
            let idx = if back { (st + 6 - k) % 7 } else { (st + k) % 7 };
            if want.is_none() && r[idx] {
                want = Some(idx);
            }
            k += 1;
        }
        match (got, want) {
            (Some(w), Some(i)) => {
                assert!(wd_index(w) as usize == i);
                r[i] = false;
                remaining -= 1;
            }
            (None, None) => assert!(remaining == 0),
            _ => assert!(false),
        }
        step += 1;
    }
    assert!(remaining == 0 && it.next().is_none() && it.next_back().is_none());
    kani::cover!(bits == 127 && sched == 0b010101010);
    kani::cover!(bits == 0);
}
