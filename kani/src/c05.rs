//! C05 — local time follows the zone data: offsets, gaps and folds (transition table part; hook tz_info::verif).
use crate::util::*;
use chrono::offset::verif_tz::Zone;
use chrono::offset::LocalResult;
use chrono::{DateTime, NaiveDateTime, TimeDelta};

const T_LIM: i64 = 1 << 40; // |transition times| bounded in these harnesses (range ends: C16)
const OFF_LIM: i32 = 26 * 3600;

#[cfg(kani)]
fn any_off() -> i32 {
    let o: i32 = kani::any();
    kani::assume(o > -OFF_LIM && o < OFF_LIM);
    o
}

/// linear-scan reference: offset in force at instant t
fn ref_offset_at(tr: &[(i64, usize)], types: &[(i32, bool)], n: usize, t: i64) -> i32 {
    let mut idx = 0usize; // before the first transition: first type
    let mut i = 0;
    while i < n {
        if tr[i].0 <= t {
            idx = tr[i].1;
        }
        i += 1;
    }
    types[idx].0
}

// @ob tier=quick timeout=1800 mem=12
// @desc transition table lookup: for any accepted zone with up to 2 transitions over 2 local time types (no footer), the offset reported for an instant is that of the last transition at or before it, the first type before the first transition (linear-scan reference vs the binary search)
// @bounds zones with N <= 2 transitions (times |t| < 2^40, strictly increasing as the validator demands), 2 types with offsets in (-26h, 26h), all instants with |t| < 2^41; no leap-second records, no footer
// @funcs tz_info::TimeZone::new/validate, TimeZoneRef::find_local_time_type (binary_search_by_key), hook Zone::{from_parts_n, offset_at}
// @outside zones with more transitions/types, footer rules, system zoneinfo files
#[kani::proof]
#[kani::unwind(4)]
fn c05_table_offset_at() {
    let n: usize = kani::any();
    kani::assume(n <= 2);
    let types = [(any_off(), kani::any::<bool>()), (any_off(), kani::any::<bool>())];
    let (t0, t1): (i64, i64) = (kani::any(), kani::any());
    let (k0, k1): (usize, usize) = (kani::any(), kani::any());
    kani::assume(t0 > -T_LIM && t0 < T_LIM && t1 > -T_LIM && t1 < T_LIM && k0 < 2 && k1 < 2);
    let tr = [(t0, k0), (t1, k1)];
    let z = Zone::from_parts_n(n, tr, types);
    let sorted = n < 2 || t0 < t1;
    assert!(z.is_ok() == sorted);
    if let Ok(z) = z {
        let t: i64 = kani::any();
        kani::assume(t > -2 * T_LIM && t < 2 * T_LIM);
        let got = z.offset_at(t);
        assert!(got == Ok(ref_offset_at(&tr, &types, n, t)));
        kani::cover!(n == 2 && t == t0);
        kani::cover!(n == 2 && t > t1);
        kani::cover!(n == 1 && t < t0);
        core::mem::forget(z);
    }
}

// @ob tier=quick timeout=900 mem=14 kf=F12
// @desc wall-clock lookup on the transition table (one transition): the answer is classified against the set of instants t with t + offset_at(t) == local: a wall-clock time inside a fold yields Ambiguous with both offsets, EARLIEST instant first (the larger offset), one strictly inside a gap yields None, every other time yields the single correct offset -- the single boundary second that ends a gap or a fold excepted, as the property states; a transition that changes only the DST flag (equal offsets) must yield exactly one result
// @bounds zones with exactly 1 transition between 2 types with offsets in (-26h, 26h); wall-clock times on the (concrete) day 2000-01-01 at one-second resolution and transition instants within one day before / two days after it -- the classification only compares second counts, the calendar date is irrelevant to it
// @funcs TimeZoneRef::find_local_time_type_from_local, hook Zone::{from_parts_n, offsets_for_local}
// @outside more than one transition; other dates (same comparisons on other second counts)
#[kani::proof]
#[kani::unwind(3)]
fn c05_table_local_one() {
    const DAY0: i64 = 946_684_800; // 2000-01-01T00:00:00Z
    let (o0, o1) = (any_off(), any_off());
    let tt: i64 = kani::any();
    kani::assume(tt >= DAY0 - 86_400 && tt < DAY0 + 3 * 86_400);
    let z = Zone::from_parts_n(1, [(tt, 1), (0, 0)], [(o0, false), (o1, true)]).unwrap();
    let s: u32 = kani::any();
    kani::assume(s < 86_400);
    let l = DAY0 + s as i64;
    let local = chrono::NaiveDate::from_ymd_opt(2000, 1, 1).unwrap().and_time(chrono::NaiveTime::from_num_seconds_from_midnight_opt(s, 0).unwrap());
    let r = z.offsets_for_local(local).unwrap();
    // instants that read `l` on the wall clock: before the transition (t < tt, offset o0), after (t >= tt, offset o1)
    let before = l - (o0 as i64) < tt; // candidate t0 = l - o0 is valid iff t0 < tt
    let after = l - (o1 as i64) >= tt; // candidate t1 = l - o1 is valid iff t1 >= tt
    // The property excepts the single boundary second that ENDS a gap or fold. For a fold (o0 > o1) that is tt + o0;
    // the second tt + o1 that opens it occurs twice and must be Ambiguous. For a gap (o1 > o0) the interval of skipped
    // readings is [tt + o0, tt + o1): "strictly inside" leaves both end points unconstrained.
    let boundary = if o1 > o0 { l == tt + (o0 as i64) || l == tt + (o1 as i64) } else { l == tt + (o0 as i64) };
    if !boundary {
        match r {
            LocalResult::Single(o) => {
                assert!(before != after || o0 == o1);
                assert!(o == if before { o0 } else { o1 });
            }
            LocalResult::Ambiguous(a, b) => {
                assert!(before && after && o0 != o1);
                assert!((a == o0 && b == o1) || (a == o1 && b == o0));
                // (earliest, latest): the larger offset denotes the earlier instant
                crate::known_finding!("kf_F12", "kfonly_F12", a < b);
                assert!(a > b);
            }
            LocalResult::None => assert!(!before && !after),
        }
    }
    if o0 == o1 {
        // only the flag changes: every wall-clock time occurs exactly once
        assert!(matches!(r, LocalResult::Single(o) if o == o0));
    }
    kani::cover!(matches!(r, LocalResult::None));
    kani::cover!(matches!(r, LocalResult::Ambiguous(_, _)));
    kani::cover!(o0 == o1 && l == tt + o0 as i64);
    core::mem::forget(z);
}
