//! C16 — the TZif and TZ-rule readers accept well-formed data and survive everything else (hook tz_info::verif).
use crate::util::*;
use chrono::offset::verif_tz::Zone;
use chrono::{DateTime, NaiveDateTime};

// @ob tier=quick timeout=900 mem=14
// @desc a zone accepted by the validator answers the offset-at-instant query for EVERY instant without panicking or overflowing (transition times and offsets over their whole admitted range, including i64::MIN/i64::MAX transition times)
// @bounds zones with N <= 2 transitions (all i64 times), 2 types with any i32 offset the validator admits, any usize type index per transition (the validator must reject indices out of bounds); all i64 instants
// @funcs TimeZone::new/validate, LocalTimeType::new, TimeZoneRef::find_local_time_type, unix_time_to_unix_leap_time
#[kani::proof]
#[kani::unwind(4)]
fn c16_zone_offset_at_total() {
    let n: usize = kani::any();
    kani::assume(n <= 2);
    let types = [(kani::any::<i32>(), kani::any::<bool>()), (kani::any::<i32>(), kani::any::<bool>())];
    // type indices are NOT restricted to valid ones: rejecting an index >= 2 is the validator's job
    let (k0, k1): (usize, usize) = (kani::any(), kani::any());
    let tr: [(i64, usize); 2] = [(kani::any(), k0), (kani::any(), k1)];
    if let Ok(z) = Zone::from_parts_n(n, tr, types) {
        let t: i64 = kani::any();
        let _ = z.offset_at(t);
        kani::cover!(n == 2);
        kani::cover!(n >= 1 && tr[0].0 == i64::MIN);
        core::mem::forget(z);
    }
}

// @ob tier=quick timeout=900 mem=14
// @desc a zone accepted by the validator answers the wall-clock query for EVERY representable wall-clock time without panicking or overflowing, also when a transition time lies within an offset of i64::MIN / i64::MAX (finding F15 on the original tree: `transition time + offset` overflowed)
// @bounds zones with N <= 2 transitions (all i64 times), 2 types with any i32 offset the validator admits, any usize type index per transition (the validator must reject indices out of bounds); all representable wall-clock times
// @funcs TimeZone::new/validate, LocalTimeType::new, TimeZoneRef::find_local_time_type_from_local
#[kani::proof]
#[kani::unwind(4)]
fn c16_zone_local_total() {
    let n: usize = kani::any();
    kani::assume(n <= 2);
    let types = [(kani::any::<i32>(), kani::any::<bool>()), (kani::any::<i32>(), kani::any::<bool>())];
    // type indices are NOT restricted to valid ones: rejecting an index >= 2 is the validator's job
    let (k0, k1): (usize, usize) = (kani::any(), kani::any());
    let tr: [(i64, usize); 2] = [(kani::any(), k0), (kani::any(), k1)];
    if let Ok(z) = Zone::from_parts_n(n, tr, types) {
        let local = any_datetime();
        let _ = z.offsets_for_local(local);
        kani::cover!(n == 2);
        kani::cover!(n >= 1 && tr[0].0 == i64::MIN);
        kani::cover!(n >= 1 && tr[0].0 > i64::MAX - 100);
        core::mem::forget(z);
    }
}

// @ob tier=extra timeout=7200 mem=24
// @desc (did not finish within 3600 s on this machine: 10 GB and growing in propositional reduction) the TZif reader is total on short inputs: for EVERY byte string of up to 56 bytes (any magic, version, six header counts, body) `TimeZone::from_tz_data` returns Ok or Err without panicking, indexing out of bounds, overflowing in the count arithmetic or allocating more than the input holds; and a zone it accepts answers an offset query
// @bounds all byte strings of length <= 56 (covers the complete version-1 layout with one type and up to five name bytes; version 2/3 inputs of this length end in an error after the first block); loops unwound 9
// @funcs parser::parse, State::new, Header::new, Cursor::{read_exact, read_be_u32}, TimeZone::new / validate, LocalTimeType::new
// @outside longer inputs (more transitions / types, second header, footer)
#[kani::proof]
#[kani::unwind(9)]
fn c16_tzif_reader_total_short() {
    let bytes: [u8; 56] = kani::any();
    let len: usize = kani::any();
    kani::assume(len <= 56);
    let r = Zone::from_tzif(&bytes[..len]);
    kani::cover!(r.is_ok());
    kani::cover!(r.is_err() && len >= 44);
    if let Ok(z) = r {
        let _ = z.offset_at(kani::any());
        core::mem::forget(z);
    }
}
