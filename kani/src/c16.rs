//! C16 — the TZif and TZ-rule readers accept well-formed data and survive everything else (hook tz_info::verif).
use crate::util::*;
use chrono::offset::verif_tz::Zone;
use chrono::{DateTime, NaiveDateTime};

// @ob tier=quick timeout=900 mem=14
// @desc a zone accepted by the validator answers the offset-at-instant query for EVERY instant without panicking or overflowing (transition times and offsets over their whole admitted range, including i64::MIN/i64::MAX transition times)
// @bounds zones with N <= 2 transitions (all i64 times), 2 types with any i32 offset the validator admits, any usize type index per transition (the validator must reject indices out of bounds); all i64 instants
// @funcs TimeZone::new/validate, LocalTimeType::new, TimeZoneRef::find_local_time_type, unix_time_to_unix_leap_time
#[kani::proof]
#[kani::unwind(4)]
fn c16_zone_offset_at_total() {
    let n: usize = kani::any();
    kani::assume(n <= 2);
    let types = [(kani::any::<i32>(), kani::any::<bool>()), (kani::any::<i32>(), kani::any::<bool>())];
    // type indices are NOT restricted to valid ones: rejecting an index >= 2 is the validator's job
    let (k0, k1): (usize, usize) = (kani::any(), kani::any());
    let tr: [(i64, usize); 2] = [(kani::any(), k0), (kani::any(), k1)];
    if let Ok(z) = Zone::from_parts_n(n, tr, types) {
        let t: i64 = kani::any();
        let _ = z.offset_at(t);
        kani::cover!(n == 2);
        kani::cover!(n >= 1 && tr[0].0 == i64::MIN);
        core::mem::forget(z);
    }
}

// @ob tier=quick timeout=900 mem=14
// @desc a zone accepted by the validator answers the wall-clock query for EVERY representable wall-clock time without panicking or overflowing, also when a transition time lies within an offset of i64::MIN / i64::MAX (finding F15 on the original tree: `transition time + offset` overflowed)
// @bounds zones with N <= 2 transitions (all i64 times), 2 types with any i32 offset the validator admits, any usize type index per transition (the validator must reject indices out of bounds); all representable wall-clock times
// @funcs TimeZone::new/validate, LocalTimeType::new, TimeZoneRef::find_local_time_type_from_local
#[kani::proof]
#[kani::unwind(4)]
fn c16_zone_local_total() {
    let n: usize = kani::any();
    kani::assume(n <= 2);
    let types = [(kani::any::<i32>(), kani::any::<bool>()), (kani::any::<i32>(), kani::any::<bool>())];
    // type indices are NOT restricted to valid ones: rejecting an index >= 2 is the validator's job
    let (k0, k1): (usize, usize) = (kani::any(), kani::any());
    let tr: [(i64, usize); 2] = [(kani::any(), k0), (kani::any(), k1)];
    if let Ok(z) = Zone::from_parts_n(n, tr, types) {
        let local = any_datetime();
        let _ = z.offsets_for_local(local);
        kani::cover!(n == 2);
        kani::cover!(n >= 1 && tr[0].0 == i64::MIN);
        kani::cover!(n >= 1 && tr[0].0 > i64::MAX - 100);
        core::mem::forget(z);
    }
}
