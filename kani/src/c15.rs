//! C15 — fallible operations fail by value, not by panic or hang (Kani part).
//! Kani's default checks (panic, arithmetic overflow, index/slice bounds, unwrap on None, debug assertions such as the
//! NaiveDate::from_yof invariants) are the obligations; the assertions below only add the termination measure.
use crate::util::*;
use chrono::format::{Item, Parsed, StrftimeItems};
use chrono::{DateTime, Datelike, Days, FixedOffset, Months, NaiveDate, NaiveDateTime, NaiveTime, TimeDelta, TimeZone, Timelike, Utc, Weekday};

// @ob tier=quick timeout=900
// @desc every fallible NaiveDate constructor returns normally (Some/None) for every argument tuple: no panic, no overflow, no invalid packed date (from_yof debug assertions)
// @bounds all i32/u32/u8 argument tuples, all weekdays
// @funcs NaiveDate::{from_ymd_opt, from_yo_opt, from_isoywd_opt, from_num_days_from_ce_opt, from_weekday_of_month_opt}
#[kani::proof]
fn c15_date_ctors_total() {
    let (a, b, c): (i32, u32, u32) = (kani::any(), kani::any(), kani::any());
    let w = any_weekday();
    let n: u8 = kani::any();
    let _ = NaiveDate::from_ymd_opt(a, b, c);
    let _ = NaiveDate::from_yo_opt(a, b);
    let _ = NaiveDate::from_isoywd_opt(a, b, w);
    let _ = NaiveDate::from_num_days_from_ce_opt(a);
    let r = NaiveDate::from_weekday_of_month_opt(a, b, w, n);
    kani::cover!(r.is_some());
    kani::cover!(a == i32::MIN);
}

// @ob tier=quick timeout=1800
// @desc every fallible NaiveDate operation returns normally for every date and argument: month/day stepping, succ/pred, field replacement, years_since, week helpers, iterators (one step from either end)
// @bounds all dates x all u32/u64/i32 arguments
// @funcs NaiveDate::{checked_add_months, checked_sub_months, checked_add_days, checked_sub_days, succ_opt, pred_opt, with_*, years_since, week().checked_*, iter_days, iter_weeks}
#[kani::proof]
fn c15_date_ops_total() {
    let d = any_date();
    let e = any_date();
    let m: u32 = kani::any();
    let k: u64 = kani::any();
    let y: i32 = kani::any();
    let _ = d.checked_add_months(Months::new(m));
    let _ = d.checked_sub_months(Months::new(m));
    let _ = d.checked_add_days(Days::new(k));
    let _ = d.checked_sub_days(Days::new(k));
    let _ = (d.succ_opt(), d.pred_opt());
    let _ = (d.with_year(y), d.with_month(m), d.with_month0(m), d.with_day(m), d.with_day0(m), d.with_ordinal(m), d.with_ordinal0(m));
    let _ = d.years_since(e);
    let w = d.week(any_weekday());
    let _ = (w.checked_first_day(), w.checked_last_day());
    let mut it = d.iter_days();
    let _ = (it.next(), it.next_back(), it.size_hint());
    let mut iw = d.iter_weeks();
    let _ = (iw.next(), iw.next_back(), iw.size_hint());
    kani::cover!(d == NaiveDate::MAX);
    kani::cover!(d == NaiveDate::MIN);
}

#[cfg(kani)]
fn ascii_str<const N: usize>(buf: &mut [u8; N]) -> &str {
    let len: usize = kani::any();
    kani::assume(len <= N);
    let mut i = 0;
    while i < N {
        let b: u8 = kani::any();
        kani::assume(b < 128);
        buf[i] = b;
        i += 1;
    }
    core::str::from_utf8(&buf[..len]).unwrap()
}

// @ob tier=quick timeout=1800 mem=12
// @desc format-string iterator, one step from a fresh iterator over ANY ASCII string (strict and lenient): next() never panics, and whenever it returns an item the pair (unconsumed bytes, queued items) has strictly decreased lexicographically -- so iteration ends after at most one item per input byte plus the longest composite expansion (finding F3 on the original tree: strict mode re-read "%Q" forever)
// @bounds format strings up to 5 bytes, all ASCII byte values (unwind 8); the step reads at most 4 bytes ahead, longer strings are covered by the inductive argument on suffixes
// @funcs StrftimeItems::{new, new_lenient, next, parse_next_item, error}, hook StrftimeItems::verif_measure
#[kani::proof]
#[kani::unwind(8)]
fn c15_strftime_step_ascii() {
    let mut buf = [0u8; 5];
    let s = ascii_str(&mut buf);
    let lenient: bool = kani::any();
    let mut it = if lenient { StrftimeItems::new_lenient(s) } else { StrftimeItems::new(s) };
    let before = it.verif_measure();
    assert!(before == (s.len(), 0));
    let item = it.next();
    let after = it.verif_measure();
    match item {
        Some(ref i) => {
            assert!(after.0 < before.0 || (after.0 == before.0 && after.1 < before.1));
            assert!(after.1 <= 12);
            kani::cover!(matches!(i, Item::Error));
            kani::cover!(after.1 > 0);
        }
        None => assert!(s.is_empty()),
    }
    // a queued item is returned without touching the string
    if after.1 > 0 {
        let _ = it.next();
        let again = it.verif_measure();
        assert!(again.0 == after.0 && again.1 + 1 == after.1);
    }
}

// @ob tier=quick timeout=1800 mem=12
// @desc same step obligation with a multi-byte scalar: a 2-byte, 3-byte or 4-byte UTF-8 character at any position of an otherwise ASCII string (slicing must stay on character boundaries: no panic)
// @bounds strings of one multi-byte scalar (U+00E9, U+2212, U+1F63D) plus up to 3 ASCII bytes before/after in total (unwind 9)
// @funcs StrftimeItems::{new, new_lenient, next, parse_next_item, error}
#[kani::proof]
#[kani::unwind(9)]
fn c15_strftime_step_multibyte() {
    let which: u8 = kani::any();
    kani::assume(which < 3);
    let ch: &[u8] = match which { 0 => &[0xC3, 0xA9], 1 => &[0xE2, 0x88, 0x92], _ => &[0xF0, 0x9F, 0x98, 0xBD] };
    let pre: usize = kani::any();
    let post: usize = kani::any();
    kani::assume(pre + post <= 3);
    let mut buf = [0u8; 7];
    let mut n = 0;
    let mut i = 0;
    while i < 3 {
        if i < pre {
            let b: u8 = kani::any();
            kani::assume(b < 128);
            buf[n] = b;
            n += 1;
        }
        i += 1;
    }
    let mut j = 0;
    while j < 4 {
        if j < ch.len() {
            buf[n] = ch[j];
            n += 1;
        }
        j += 1;
    }
    let mut i = 0;
    while i < 3 {
        if i < post {
            let b: u8 = kani::any();
            kani::assume(b < 128);
            buf[n] = b;
            n += 1;
        }
        i += 1;
    }
    let s = core::str::from_utf8(&buf[..n]).unwrap();
    let lenient: bool = kani::any();
    let mut it = if lenient { StrftimeItems::new_lenient(s) } else { StrftimeItems::new(s) };
    // walk the whole string: at most one item per byte plus the longest queue
    let mut steps = 0;
    let mut prev = it.verif_measure();
    while steps < 8 {
        match it.next() {
            Some(_) => {
                let cur = it.verif_measure();
                assert!(cur.0 < prev.0 || (cur.0 == prev.0 && cur.1 < prev.1));
                prev = cur;
            }
            None => break,
        }
        steps += 1;
    }
    kani::cover!(pre == 1 && buf[0] == b'%');
}
