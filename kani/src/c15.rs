//! C15 — fallible operations fail by value, not by panic or hang (Kani part).
//! Kani's default checks (panic, arithmetic overflow, index/slice bounds, unwrap on None, debug assertions such as the
//! NaiveDate::from_yof invariants) are the obligations; the assertions below only add the termination measure.
use crate::util::*;
use chrono::format::{Item, Parsed, StrftimeItems};
use chrono::{DateTime, Datelike, Days, FixedOffset, Months, NaiveDate, NaiveDateTime, NaiveTime, TimeDelta, TimeZone, Timelike, Utc, Weekday};

// @ob tier=quick timeout=900
// @desc every fallible NaiveDate constructor returns normally (Some/None) for every argument tuple: no panic, no overflow, no invalid packed date (from_yof debug assertions)
// @bounds all i32/u32/u8 argument tuples, all weekdays
// @funcs NaiveDate::{from_ymd_opt, from_yo_opt, from_isoywd_opt, from_num_days_from_ce_opt, from_weekday_of_month_opt}
#[kani::proof]
fn c15_date_ctors_total() {
    let (a, b, c): (i32, u32, u32) = (kani::any(), kani::any(), kani::any());
    let w = any_weekday();
    let n: u8 = kani::any();
    let _ = NaiveDate::from_ymd_opt(a, b, c);
    let _ = NaiveDate::from_yo_opt(a, b);
    let _ = NaiveDate::from_isoywd_opt(a, b, w);
    let _ = NaiveDate::from_num_days_from_ce_opt(a);
    let r = NaiveDate::from_weekday_of_month_opt(a, b, w, n);
    kani::cover!(r.is_some());
    kani::cover!(a == i32::MIN);
}

// @ob tier=quick timeout=1800
// @desc every fallible NaiveDate operation returns normally for every date and argument: month/day stepping, succ/pred, field replacement, years_since, week helpers, iterators (one step from either end)
// @bounds all dates x all u32/u64/i32 arguments
// @funcs NaiveDate::{checked_add_months, checked_sub_months, checked_add_days, checked_sub_days, succ_opt, pred_opt, with_*, years_since, week().checked_*, iter_days, iter_weeks}
#[kani::proof]
fn c15_date_ops_total() {
    let d = any_date();
    let e = any_date();
    let m: u32 = kani::any();
    let k: u64 = kani::any();
    let y: i32 = kani::any();
    let _ = d.checked_add_months(Months::new(m));
    let _ = d.checked_sub_months(Months::new(m));
    let _ = d.checked_add_days(Days::new(k));
    let _ = d.checked_sub_days(Days::new(k));
    let _ = (d.succ_opt(), d.pred_opt());
    let _ = (d.with_year(y), d.with_month(m), d.with_month0(m), d.with_day(m), d.with_day0(m), d.with_ordinal(m), d.with_ordinal0(m));
    let _ = d.years_since(e);
    let w = d.week(any_weekday());
    let _ = (w.checked_first_day(), w.checked_last_day());
    let mut it = d.iter_days();
    let _ = (it.next(), it.next_back(), it.size_hint());
    let mut iw = d.iter_weeks();
    let _ = (iw.next(), iw.next_back(), iw.size_hint());
    kani::cover!(d == NaiveDate::MAX);
    kani::cover!(d == NaiveDate::MIN);
}

#[cfg(kani)]
fn ascii_str<const N: usize>(buf: &mut [u8; N]) -> &str {
    let len: usize = kani::any();
    kani::assume(len <= N);
    let mut i = 0;
    while i < N {
        let b: u8 = kani::any();
        kani::assume(b < 128);
        buf[i] = b;
        i += 1;
    }
    // every byte is < 128 (assumed above), hence valid UTF-8; the validation loop is kept out of the formula
    unsafe { core::str::from_utf8_unchecked(&buf[..len]) }
}

// @ob tier=extra timeout=7200 mem=14
// @desc format-string iterator, one step from a fresh iterator over ANY ASCII string (strict and lenient): next() never panics, and whenever it returns an item the pair (unconsumed bytes, queued items) has strictly decreased lexicographically -- so iteration ends after at most one item per input byte plus the longest composite expansion (finding F3 on the original tree: strict mode re-read "%Q" forever)
// @bounds format strings up to 5 bytes, all ASCII byte values (unwind 8); the step reads at most 4 bytes ahead, longer strings are covered by the inductive argument on suffixes
// @funcs StrftimeItems::{new, new_lenient, next, parse_next_item, error}, hook StrftimeItems::verif_measure
#[kani::proof]
#[kani::unwind(8)]
fn c15_strftime_step_ascii() {
    let mut buf = [0u8; 5];
    let s = ascii_str(&mut buf);
    let lenient: bool = kani::any();
    let mut it = if lenient { StrftimeItems::new_lenient(s) } else { StrftimeItems::new(s) };
    let before = it.verif_measure();
    assert!(before == (s.len(), 0));
    let item = it.next();
    let after = it.verif_measure();
    match item {
        Some(ref i) => {
            assert!(after.0 < before.0 || (after.0 == before.0 && after.1 < before.1));
            assert!(after.1 <= 12);
            kani::cover!(matches!(i, Item::Error));
            kani::cover!(after.1 > 0);
        }
        None => assert!(s.is_empty()),
    }
    // a queued item is returned without touching the string
    if after.1 > 0 {
        let _ = it.next();
        let again = it.verif_measure();
        assert!(again.0 == after.0 && again.1 + 1 == after.1);
    }
}

// @ob tier=extra timeout=7200 mem=14
// @desc same step obligation with a multi-byte scalar: a 2-byte, 3-byte or 4-byte UTF-8 character at any position of an otherwise ASCII string (slicing must stay on character boundaries: no panic)
// @bounds strings of one multi-byte scalar (U+00E9, U+2212, U+1F63D) plus up to 3 ASCII bytes before/after in total (unwind 9)
// @funcs StrftimeItems::{new, new_lenient, next, parse_next_item, error}
#[kani::proof]
#[kani::unwind(9)]
fn c15_strftime_step_multibyte() {
    let which: u8 = kani::any();
    kani::assume(which < 3);
    let ch: &[u8] = match which { 0 => &[0xC3, 0xA9], 1 => &[0xE2, 0x88, 0x92], _ => &[0xF0, 0x9F, 0x98, 0xBD] };
    let pre: usize = kani::any();
    let post: usize = kani::any();
    kani::assume(pre + post <= 3);
    let mut buf = [0u8; 7];
    let mut n = 0;
    let mut i = 0;
    while i < 3 {
        if i < pre {
            let b: u8 = kani::any();
            kani::assume(b < 128);
            buf[n] = b;
            n += 1;
        }
        i += 1;
    }
    let mut j = 0;
    while j < 4 {
        if j < ch.len() {
            buf[n] = ch[j];
            n += 1;
        }
        j += 1;
    }
    let mut i = 0;
    while i < 3 {
        if i < post {
            let b: u8 = kani::any();
            kani::assume(b < 128);
            buf[n] = b;
            n += 1;
        }
        i += 1;
    }
    let s = core::str::from_utf8(&buf[..n]).unwrap();
    let lenient: bool = kani::any();
    let mut it = if lenient { StrftimeItems::new_lenient(s) } else { StrftimeItems::new(s) };
    // walk the whole string: at most one item per byte plus the longest queue
    let mut steps = 0;
    let mut prev = it.verif_measure();
    while steps < 8 {
        match it.next() {
            Some(_) => {
                let cur = it.verif_measure();
                assert!(cur.0 < prev.0 || (cur.0 == prev.0 && cur.1 < prev.1));
                prev = cur;
            }
            None => break,
        }
        steps += 1;
    }
    kani::cover!(pre == 1 && buf[0] == b'%');
}

// @ob tier=thorough timeout=3600 mem=24
// @desc instance of the iterator step obligation: fresh iterator over any ASCII string of up to 3 bytes (strict and lenient): no panic, and a returned item strictly decreases (unconsumed bytes, queued items) -- covers "%", "%Q", "%-Q", "%#Q", "%.3", "%:z" (finding F3 on the original tree)
// @bounds format strings up to 3 bytes, all ASCII byte values (unwind 6); longer strings: c15_strftime_step_ascii
// @funcs StrftimeItems::{new, new_lenient, next, parse_next_item, error}, hook StrftimeItems::verif_measure
#[kani::proof]
#[kani::unwind(6)]
fn c15_strftime_step_short() {
    let mut buf = [0u8; 3];
    let s = ascii_str(&mut buf);
    let lenient: bool = kani::any();
    let mut it = if lenient { StrftimeItems::new_lenient(s) } else { StrftimeItems::new(s) };
    let before = it.verif_measure();
    let item = it.next();
    let after = it.verif_measure();
    match item {
        Some(ref i) => {
            assert!(after.0 < before.0 || (after.0 == before.0 && after.1 < before.1));
            kani::cover!(matches!(i, Item::Error));
            kani::cover!(after.1 > 0);
        }
        None => assert!(s.is_empty()),
    }
}

#[cfg(kani)]
fn range_end_datetime() -> DateTime<FixedOffset> {
    // a UTC reading within the last or first representable day, any offset: the wall clock may lie in the headroom day
    let at_max: bool = kani::any();
    let secs: u32 = kani::any();
    kani::assume(secs < 86_400);
    let t = NaiveTime::from_num_seconds_from_midnight_opt(secs, 0).unwrap();
    let u = if at_max { NaiveDate::MAX.and_time(t) } else { NaiveDate::MIN.and_time(t) };
    any_offset().from_utc_datetime(&u)
}

// @ob tier=quick timeout=900 mem=10
// @desc DurationRound on DateTime<FixedOffset> at both ends of the range (wall clock possibly in the one-day headroom beyond MIN/MAX): duration_trunc / duration_round / duration_round_up return a Result (here always Err: outside the i64-nanosecond window) and never panic (finding F6 on the original tree: naive_local() panicked first)
// @bounds UTC readings within the first and last representable day (second resolution) x all offsets x the spans 1 s and 1 day
// @funcs impl DurationRound for DateTime<Tz>, DateTime::overflowing_naive_local, duration_trunc/round/round_up (error paths)
#[kani::proof]
fn c15_round_range_ends() {
    use chrono::DurationRound;
    let dt = range_end_datetime();
    let span = if kani::any() { TimeDelta::try_seconds(1).unwrap() } else { TimeDelta::try_days(1).unwrap() };
    let a = dt.duration_trunc(span);
    let b = dt.duration_round(span);
    let c = dt.duration_round_up(span);
    assert!(a.is_err() && b.is_err() && c.is_err());
    kani::cover!(dt.offset().local_minus_utc() > 0);
}

// @ob tier=extra timeout=7200 mem=16
// @desc the RFC 3339 renderers at both ends of the range: to_rfc3339 and to_rfc3339_opts (every precision, with and without Z) return normally -- never panic -- also when the wall-clock reading lies in the headroom day beyond MIN/MAX (finding F7 on the original tree: to_rfc3339_opts called naive_local())
// @bounds the first and the last representable UTC second x all whole-hour offsets in (-24h, 24h) x 5 precisions x use_z; text goes to a String (Kani's alloc model)
// @funcs DateTime::{to_rfc3339, to_rfc3339_opts}, write_rfc3339, OffsetFormat::format
// @outside other UTC readings of the first/last day and offsets that are not whole hours (same code path; kept small because String formatting is expensive to encode)
#[kani::proof]
#[kani::unwind(12)]
fn c15_rfc3339_range_ends() {
    use chrono::SecondsFormat;
    let at_max: bool = kani::any();
    let u = if at_max { NaiveDate::MAX.and_hms_opt(23, 59, 59).unwrap() } else { NaiveDate::MIN.and_hms_opt(0, 0, 0).unwrap() };
    let h: i32 = kani::any();
    kani::assume(h > -24 && h < 24);
    let dt = FixedOffset::east_opt(h * 3600).unwrap().from_utc_datetime(&u);
    let which: u8 = kani::any();
    kani::assume(which < 5);
    let sf = match which { 0 => SecondsFormat::Secs, 1 => SecondsFormat::Millis, 2 => SecondsFormat::Micros, 3 => SecondsFormat::Nanos, _ => SecondsFormat::AutoSi };
    let s = dt.to_rfc3339_opts(sf, kani::any());
    assert!(s.len() >= 20);
    core::mem::forget(s);
    let s2 = dt.to_rfc3339();
    core::mem::forget(s2);
    kani::cover!(at_max && h > 0);
    kani::cover!(!at_max && h < 0);
}

// @ob tier=thorough timeout=3600 mem=14
// @desc quick instance of the iterator step obligation: a fresh strict or lenient iterator over "%" followed by any one ASCII byte (every single-letter specifier, known or unknown, and the bare "%"): next() never panics and a returned item strictly decreases (unconsumed bytes, queued items) -- the strict-mode "%Q" loop of finding F3 is exactly this case
// @bounds the strings "%" and "%x" for all 128 ASCII values of x (unwind 5); longer strings: c15_strftime_step_short / _ascii (thorough)
// @funcs StrftimeItems::{new, new_lenient, next, parse_next_item, error}, hook StrftimeItems::verif_measure
#[kani::proof]
#[kani::unwind(5)]
fn c15_strftime_step_percent() {
    let x: u8 = kani::any();
    kani::assume(x < 128);
    let buf = [b'%', x];
    let len: usize = kani::any();
    kani::assume(len == 1 || len == 2);
    let s = unsafe { core::str::from_utf8_unchecked(&buf[..len]) };
    let lenient: bool = kani::any();
    let mut it = if lenient { StrftimeItems::new_lenient(s) } else { StrftimeItems::new(s) };
    let before = it.verif_measure();
    let item = it.next();
    let after = it.verif_measure();
    assert!(item.is_some());
    assert!(after.0 < before.0 || (after.0 == before.0 && after.1 < before.1));
    kani::cover!(matches!(item, Some(Item::Error)));
    kani::cover!(after.1 > 0);
}
