//! C07 — time-of-day validity, accessors, single-field replacement (Kani part; the arithmetic is Engine M).
use crate::util::*;
use chrono::{FixedOffset, NaiveTime, Timelike};

fn valid_hmsn(h: u32, m: u32, s: u32, n: u32) -> bool {
    h < 24 && m < 60 && s < 60 && (n < 1_000_000_000 || (n < 2_000_000_000 && s == 59))
}

// @ob tier=quick timeout=600
// @desc from_hms_nano_opt / from_hms_opt / from_hms_milli_opt / from_hms_micro_opt / from_num_seconds_from_midnight_opt accept exactly hour<24, minute<60, second<60 and nanosecond < 10^9 (or < 2*10^9 on second 59); accessors hour/minute/second/nanosecond/num_seconds_from_midnight/hour12 return the fields
// @bounds all u32^4 argument tuples (milli/micro arguments full u32 incl. multiplication overflow)
// @funcs NaiveTime::{from_hms_opt, from_hms_milli_opt, from_hms_micro_opt, from_hms_nano_opt, from_num_seconds_from_midnight_opt, hms}, Timelike for NaiveTime, Timelike::{hour12, num_seconds_from_midnight}
#[kani::proof]
fn c07_ctor_valid_iff() {
    let (h, m, s, n): (u32, u32, u32, u32) = (kani::any(), kani::any(), kani::any(), kani::any());
    match NaiveTime::from_hms_nano_opt(h, m, s, n) {
        Some(t) => {
            assert!(valid_hmsn(h, m, s, n));
            assert!(t.hour() == h && t.minute() == m && t.second() == s && t.nanosecond() == n);
            assert!(t.num_seconds_from_midnight() == h * 3600 + m * 60 + s);
            let (pm, h12) = t.hour12();
            assert!(pm == (h >= 12) && h12 >= 1 && h12 <= 12 && h12 % 12 == h % 12);
            assert!(NaiveTime::from_num_seconds_from_midnight_opt(h * 3600 + m * 60 + s, n) == Some(t));
            kani::cover!(n >= 1_000_000_000);
            kani::cover!(h == 0 && h12 == 12 && !pm);
        }
        None => assert!(!valid_hmsn(h, m, s, n)),
    }
    assert!(NaiveTime::from_hms_opt(h, m, s) == NaiveTime::from_hms_nano_opt(h, m, s, 0));
    let milli: u32 = kani::any();
    let want_ms = if milli < 2000 { NaiveTime::from_hms_nano_opt(h, m, s, milli * 1_000_000) } else { None };
    assert!(NaiveTime::from_hms_milli_opt(h, m, s, milli) == want_ms);
    let micro: u32 = kani::any();
    let want_us = if micro < 2_000_000 { NaiveTime::from_hms_nano_opt(h, m, s, micro * 1000) } else { None };
    assert!(NaiveTime::from_hms_micro_opt(h, m, s, micro) == want_us);
    let (secs, nano): (u32, u32) = (kani::any(), kani::any());
    match NaiveTime::from_num_seconds_from_midnight_opt(secs, nano) {
        Some(t) => {
            assert!(secs < 86_400 && (nano < 1_000_000_000 || (nano < 2_000_000_000 && secs % 60 == 59)));
            assert!(t.num_seconds_from_midnight() == secs && t.nanosecond() == nano);
            assert!(t.hour() == secs / 3600 && t.minute() == secs / 60 % 60 && t.second() == secs % 60);
        }
        None => assert!(!(secs < 86_400 && (nano < 1_000_000_000 || (nano < 2_000_000_000 && secs % 60 == 59)))),
    }
    kani::cover!(NaiveTime::from_hms_milli_opt(h, m, s, milli).is_some() && milli >= 1000);
    kani::cover!(NaiveTime::from_hms_micro_opt(h, m, s, micro).is_none() && micro > 4_294_000_000);
}

// @ob tier=quick timeout=600
// @desc with_hour/minute/second/nanosecond change exactly the named field and keep the others (incl. a leap-second fraction), None exactly for out-of-range arguments
// @bounds all times of day incl. leap representations on any second x all u32 replacement values
// @funcs Timelike::{with_hour, with_minute, with_second, with_nanosecond} for NaiveTime
#[kani::proof]
fn c07_with_fields() {
    let t = any_time();
    let (h, m, s, n) = (t.hour(), t.minute(), t.second(), t.nanosecond());
    let x: u32 = kani::any();
    match t.with_hour(x) {
        Some(r) => assert!(x < 24 && r.hour() == x && r.minute() == m && r.second() == s && r.nanosecond() == n),
        None => assert!(x >= 24),
    }
    match t.with_minute(x) {
        Some(r) => assert!(x < 60 && r.hour() == h && r.minute() == x && r.second() == s && r.nanosecond() == n),
        None => assert!(x >= 60),
    }
    match t.with_second(x) {
        Some(r) => assert!(x < 60 && r.hour() == h && r.minute() == m && r.second() == x && r.nanosecond() == n),
        None => assert!(x >= 60),
    }
    match t.with_nanosecond(x) {
        Some(r) => assert!(x < 2_000_000_000 && r.hour() == h && r.minute() == m && r.second() == s && r.nanosecond() == x),
        None => assert!(x >= 2_000_000_000),
    }
    kani::cover!(n >= 1_000_000_000 && s != 59);
    kani::cover!(t.with_second(x).is_some() && n >= 1_000_000_000);
}
