//! Independent proleptic Gregorian reference calendar (the oracle). It shares no table and no
//! formula with chrono: leap rule by divisibility, month lengths by a match, weekdays and day
//! numbers by Hinnant's `days_from_civil`, ISO weeks by the "week of the Thursday" rule.
pub const MIN_YEAR: i32 = -262143;
pub const MAX_YEAR: i32 = 262142;

pub fn is_leap(y: i32) -> bool {
    (y % 4 == 0 && y % 100 != 0) || y % 400 == 0
}
pub fn days_in_month(y: i32, m: u32) -> u32 {
    match m {
        1 | 3 | 5 | 7 | 8 | 10 | 12 => 31,
        4 | 6 | 9 | 11 => 30,
        2 => {
            if is_leap(y) {
                29
            } else {
                28
            }
        }
        _ => 0,
    }
}
pub fn days_in_year(y: i32) -> u32 {
    if is_leap(y) {
        366
    } else {
        365
    }
}
pub fn year_in_range(y: i32) -> bool {
    y >= MIN_YEAR && y <= MAX_YEAR
}
pub fn valid_ymd(y: i32, m: u32, d: u32) -> bool {
    year_in_range(y) && m >= 1 && m <= 12 && d >= 1 && d <= days_in_month(y, m)
}
pub fn valid_yo(y: i32, o: u32) -> bool {
    year_in_range(y) && o >= 1 && o <= days_in_year(y)
}
/// days before the first of month m (non-cumulative table written out by hand)
pub fn days_before_month(y: i32, m: u32) -> u32 {
    let l = if is_leap(y) { 1 } else { 0 };
    match m {
        1 => 0,
        2 => 31,
        3 => 59 + l,
        4 => 90 + l,
        5 => 120 + l,
        6 => 151 + l,
        7 => 181 + l,
        8 => 212 + l,
        9 => 243 + l,
        10 => 273 + l,
        11 => 304 + l,
        _ => 334 + l,
    }
}
pub fn ordinal_of(y: i32, m: u32, d: u32) -> u32 {
    days_before_month(y, m) + d
}
/// (month, day) of ordinal `o` in year `y`; requires 1 <= o <= days_in_year(y).
pub fn md_of_ordinal(y: i32, o: u32) -> (u32, u32) {
    let mut m = 12;
    while m > 1 && days_before_month(y, m) >= o {
        m -= 1;
    }
    (m, o - days_before_month(y, m))
}
/// Hinnant days_from_civil: days since 1970-01-01 (any i32 year fits in i64).
pub fn days_from_civil(y: i32, m: u32, d: u32) -> i64 {
    let y = y as i64 - if m <= 2 { 1 } else { 0 };
    let era = if y >= 0 { y } else { y - 399 } / 400;
    let yoe = y - era * 400; // [0, 399]
    let mp = if m > 2 { m as i64 - 3 } else { m as i64 + 9 };
    let doy = (153 * mp + 2) / 5 + d as i64 - 1; // [0, 365]
    let doe = yoe * 365 + yoe / 4 - yoe / 100 + doy; // [0, 146096]
    era * 146097 + doe - 719468
}
/// Day number with 0001-01-01 = 1 (chrono's `num_days_from_ce`).
pub fn days_from_ce(y: i32, m: u32, d: u32) -> i64 {
    days_from_civil(y, m, d) + 719163
}
/// Weekday index, Monday = 0. 1970-01-01 was a Thursday. Uses only the position inside the
/// 400-year era (146097 is a multiple of 7).
pub fn weekday_index(y: i32, m: u32, d: u32) -> u32 {
    let yy = y as i64 - if m <= 2 { 1 } else { 0 };
    let yoe = yy.rem_euclid(400);
    let mp = if m > 2 { m as i64 - 3 } else { m as i64 + 9 };
    let doy = (153 * mp + 2) / 5 + d as i64 - 1;
    let doe = yoe * 365 + yoe / 4 - yoe / 100 + doy;
    // 0000-03-01 (doe = 0 of era 0) is days_from_civil = -719468; (-719468 + 3) mod 7
    ((doe + (-719468i64 + 3).rem_euclid(7)) % 7) as u32
}
pub fn weekday_of_yo(y: i32, o: u32) -> u32 {
    (weekday_index(y, 1, 1) + o - 1) % 7
}
/// ISO 8601: number of weeks of ISO year y: 53 iff 1 Jan is a Thursday, or a Wednesday in a leap year.
pub fn iso_weeks_in_year(y: i32) -> u32 {
    let w = weekday_index(y, 1, 1);
    if w == 3 || (w == 2 && is_leap(y)) {
        53
    } else {
        52
    }
}
/// ISO (year, week) of the date with ordinal o in year y: the year and week-of-year of that week's Thursday.
pub fn iso_year_week(y: i32, o: u32) -> (i32, u32) {
    let wd = weekday_of_yo(y, o) as i32;
    let th = o as i32 - wd + 3; // ordinal of the Thursday of this week, relative to year y
    if th < 1 {
        let py = y - 1;
        let t = th + days_in_year(py) as i32;
        (py, ((t - 1) / 7 + 1) as u32)
    } else if th > days_in_year(y) as i32 {
        let t = th - days_in_year(y) as i32;
        (y + 1, ((t - 1) / 7 + 1) as u32)
    } else {
        (y, ((th - 1) / 7 + 1) as u32)
    }
}
