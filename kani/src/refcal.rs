//! Independent proleptic Gregorian reference calendar. Shares no table and no formula with chrono.
pub const MIN_YEAR: i32 = -262143;
pub const MAX_YEAR: i32 = 262142;

pub fn is_leap(y: i32) -> bool {
    (y % 4 == 0 && y % 100 != 0) || y % 400 == 0
}
pub fn days_in_month(y: i32, m: u32) -> u32 {
    match m {
        1 | 3 | 5 | 7 | 8 | 10 | 12 => 31,
        4 | 6 | 9 | 11 => 30,
        2 => {
            if is_leap(y) {
                29
            } else {
                28
            }
        }
        _ => 0,
    }
}
pub fn days_in_year(y: i32) -> u32 {
    if is_leap(y) {
        366
    } else {
        365
    }
}
