//! C12 — every strftime specifier renders the documented field (numeric items; writer side only).
//! One harness per item keeps each formula small; the reference values come from the independent calendar (refcal).
use crate::refcal::*;
use crate::util::*;
use chrono::format::{Item, Numeric, Pad};
use chrono::{Datelike, NaiveDate, NaiveTime, Timelike};
use core::fmt::Write;

#[cfg(kani)]
fn any_pad() -> (Pad, u8) {
    let p: u8 = kani::any();
    kani::assume(p < 3);
    (match p { 0 => Pad::None, 1 => Pad::Zero, _ => Pad::Space }, p)
}
/// documented two-digit rendering of 0 <= v <= 99 under a padding modifier (0 = none, 1 = zero, 2 = space)
fn two_ok(b: &Buf<12>, v: u32, p: u8) -> bool {
    if v >= 10 || p == 1 {
        b.len == 2 && b.b[0] == b'0' + (v / 10) as u8 && b.b[1] == b'0' + (v % 10) as u8
    } else if p == 2 {
        b.len == 2 && b.b[0] == b' ' && b.b[1] == b'0' + v as u8
    } else {
        b.len == 1 && b.b[0] == b'0' + v as u8
    }
}
fn one_ok(b: &Buf<12>, v: u32) -> bool {
    b.len == 1 && b.b[0] == b'0' + v as u8
}
/// reference rendering of a (possibly signed) integer of up to 7 digits with minimum width `w`
fn int_ok(b: &Buf<12>, v: i64, w: usize, p: u8, always_sign: bool) -> bool {
    let neg = v < 0;
    let mag = if neg { -v } else { v } as u32;
    let nd = if mag >= 1_000_000 { 7 } else if mag >= 100_000 { 6 } else if mag >= 10_000 { 5 } else if mag >= 1000 { 4 } else if mag >= 100 { 3 } else if mag >= 10 { 2 } else { 1 };
    let sign = if neg { Some(b'-') } else if always_sign { Some(b'+') } else { None };
    let body = nd + if sign.is_some() { 1 } else { 0 };
    let fill = if p != 0 && w > body { w - body } else { 0 };
    if b.len != body + fill || b.overflow {
        return false;
    }
    let mut ok = true;
    let mut pos = 0;
    let mut i = 0;
    if p == 2 {
        while i < 5 {
            if i < fill { ok &= b.b[pos] == b' '; pos += 1; }
            i += 1;
        }
    }
    if let Some(s) = sign { ok &= b.b[pos] == s; pos += 1; }
    if p == 1 {
        i = 0;
        while i < 5 {
            if i < fill { ok &= b.b[pos] == b'0'; pos += 1; }
            i += 1;
        }
    }
    let pow = [1u32, 10, 100, 1000, 10_000, 100_000, 1_000_000];
    i = 0;
    while i < 7 {
        if i < nd {
            let dgt = (mag / pow[nd - 1 - i]) % 10;
            ok &= b.b[pos] == b'0' + dgt as u8;
            pos += 1;
        }
        i += 1;
    }
    ok
}
fn render_date(d: NaiveDate, n: Numeric, pad: Pad) -> Buf<12> {
    let item = [Item::Numeric(n, pad)];
    let mut buf = Buf::<12>::new();
    let r = d.format_with_items(item.iter()).write_to(&mut buf);
    assert!(r.is_ok() && !buf.overflow);
    buf
}
fn render_time(t: NaiveTime, n: Numeric, pad: Pad) -> Buf<12> {
    let item = [Item::Numeric(n, pad)];
    let mut buf = Buf::<12>::new();
    let r = t.format_with_items(item.iter()).write_to(&mut buf);
    assert!(r.is_ok() && !buf.overflow);
    buf
}

// @ob tier=thorough timeout=3600 mem=12
// @desc %Y with every padding modifier: the year with at least four digits (zero / space / no padding) and an explicit sign exactly for years outside 0..=9999, for every date incl. negative and five/six-digit years (core::fmt integer path)
// @bounds all dates x {Zero, Space, None}; loops unwound 9 (values have at most 6 digits + sign)
// @funcs DelayedFormat::{write_to, format_numeric}, write_year, write_n, write_hundreds
#[kani::proof]
#[kani::unwind(9)]
fn c12_year() {
    let d = any_date();
    let (pad, p) = any_pad();
    let buf = render_date(d, Numeric::Year, pad);
    let y = d.year();
    // four digits; a mandatory sign (years outside 0..=9999) is written in addition to them: -0300, +12345
    let signed = y < 0 || y > 9999;
    assert!(int_ok(&buf, y as i64, if signed { 5 } else { 4 }, p, signed));
    kani::cover!(y < 0 && p == 2);
    kani::cover!(y > 9999);
    kani::cover!(y >= 0 && y < 1000 && p == 0);
}

// @ob tier=quick timeout=1800 mem=8
// @desc %C with every padding modifier: floor(year / 100), two digits for 0..=99 and a plain (signed) integer otherwise -- e.g. year -99 prints -1 as documented (finding F5 on the original tree: u8 narrowing printed garbage)
// @bounds all dates x {Zero, Space, None}
// @funcs DelayedFormat::format_numeric (YearDiv100), write_century, write_two, write_n
#[kani::proof]
#[kani::unwind(9)]
fn c12_century() {
    let d = any_date();
    let (pad, p) = any_pad();
    let buf = render_date(d, Numeric::YearDiv100, pad);
    let c = d.year().div_euclid(100);
    if c >= 0 && c <= 99 {
        assert!(two_ok(&buf, c as u32, p));
    } else {
        assert!(int_ok(&buf, c as i64, 2, p, false));
    }
    kani::cover!(c < 0);
    kani::cover!(c > 99);
}

macro_rules! two_digit_date_item {
    ($name:ident, $num:expr, $val:expr) => {
        // @ob tier=quick timeout=1800 mem=8
        // @desc a two-digit date item (%y for years >= 0, %m, %d/%e, %U, %W, %V) with every padding modifier renders the documented field of every date: the value comes from the independent reference calendar (week numbers: Sunday-/Monday-based count of week starts, ISO week of the Thursday)
        // @bounds all dates x {Zero, Space, None}
        // @funcs DelayedFormat::format_numeric, write_two, NaiveDate::weeks_from, IsoWeek
        #[kani::proof]
        #[kani::unwind(13)]
        fn $name() {
            let d = any_date();
            let (y, o) = (d.year(), d.ordinal());
            kani::assume(valid_yo(y, o));
            let (pad, p) = any_pad();
            let buf = render_date(d, $num, pad);
            let f: fn(i32, u32) -> Option<u32> = $val;
            if let Some(v) = f(y, o) {
                assert!(two_ok(&buf, v, p));
                kani::cover!(v < 10 && p == 2);
                kani::cover!(v >= 10);
            }
        }
    };
}
fn wk(y: i32, o: u32, start: u32) -> u32 {
    let since = (weekday_of_yo(y, o) + 7 - start) % 7;
    if o > since { (o - since - 1) / 7 + 1 } else { 0 }
}
two_digit_date_item!(c12_year_mod_100, Numeric::YearMod100, |y, _o| if y >= 0 { Some((y % 100) as u32) } else { None });
two_digit_date_item!(c12_month, Numeric::Month, |y, o| Some(md_of_ordinal(y, o).0));
two_digit_date_item!(c12_day, Numeric::Day, |y, o| Some(md_of_ordinal(y, o).1));
two_digit_date_item!(c12_week_from_sun, Numeric::WeekFromSun, |y, o| Some(wk(y, o, 6)));
two_digit_date_item!(c12_week_from_mon, Numeric::WeekFromMon, |y, o| Some(wk(y, o, 0)));
two_digit_date_item!(c12_iso_week, Numeric::IsoWeek, |y, o| Some(iso_year_week(y, o).1));

// @ob tier=thorough timeout=3600 mem=12
// @desc one-digit and three-digit date items: %q quarter, %w (Sunday = 0), %u (Monday = 1) ignore padding and print one digit; %j is the ordinal with width 3 under every padding modifier
// @bounds all dates x {Zero, Space, None}
// @funcs DelayedFormat::format_numeric (Quarter, NumDaysFromSun, WeekdayFromMon, Ordinal), write_one, write_n
#[kani::proof]
#[kani::unwind(13)]
fn c12_small_items() {
    let d = any_date();
    let (y, o) = (d.year(), d.ordinal());
    kani::assume(valid_yo(y, o));
    let (pad, p) = any_pad();
    let wd = weekday_of_yo(y, o);
    let m = md_of_ordinal(y, o).0;
    assert!(one_ok(&render_date(d, Numeric::Quarter, pad), (m - 1) / 3 + 1));
    assert!(one_ok(&render_date(d, Numeric::NumDaysFromSun, pad), (wd + 1) % 7));
    assert!(one_ok(&render_date(d, Numeric::WeekdayFromMon, pad), wd + 1));
    assert!(int_ok(&render_date(d, Numeric::Ordinal, pad), o as i64, 3, p, false));
    kani::cover!(o < 10 && p == 2);
    kani::cover!(wd == 6);
}

// @ob tier=quick timeout=1800 mem=8
// @desc clock items with every padding modifier: %H, %I (12-hour clock: 12 at 0 and 12), %M, %S (60 for a leap second) for every time of day incl. leap representations; a date-only value cannot render clock items (error, nothing printed)
// @bounds all times of day x {Zero, Space, None}
// @funcs DelayedFormat::format_numeric (Hour, Hour12, Minute, Second), Timelike::hour12
#[kani::proof]
#[kani::unwind(9)]
fn c12_clock_items() {
    let t = any_time();
    let (pad, p) = any_pad();
    let s = t.num_seconds_from_midnight();
    let f = t.nanosecond();
    let h = s / 3600;
    assert!(two_ok(&render_time(t, Numeric::Hour, pad), h, p));
    assert!(two_ok(&render_time(t, Numeric::Hour12, pad), if h % 12 == 0 { 12 } else { h % 12 }, p));
    assert!(two_ok(&render_time(t, Numeric::Minute, pad), s / 60 % 60, p));
    assert!(two_ok(&render_time(t, Numeric::Second, pad), s % 60 + if f >= 1_000_000_000 { 1 } else { 0 }, p));
    let d = NaiveDate::from_ymd_opt(2001, 7, 8).unwrap();
    let item = [Item::Numeric(Numeric::Hour, pad)];
    let mut b2 = Buf::<12>::new();
    assert!(d.format_with_items(item.iter()).write_to(&mut b2).is_err() && b2.len == 0);
    kani::cover!(f >= 1_000_000_000 && s % 60 == 59);
    kani::cover!(h == 0);
}

// One harness per offset item (a symbolic item multiplies the formatting paths past the quick cap).
macro_rules! offset_item {
    ($name:ident, $fx:expr, $which:expr) => {
        // @ob tier=quick timeout=900 mem=8
        // @desc one offset item of %z, %:z, %::z, %:::z for every offset incl. seconds: sign, then hours/minutes with the seconds rounded to the nearest minute (carrying into the hour) for %z and %:z, exact hours:minutes:seconds for %::z, truncated hours for %:::z; two digits each, colons as documented
        // @bounds all offsets in (-24h, 24h) at one-second resolution; date-time concrete (the offset writer only reads the offset)
        // @funcs DelayedFormat::format_fixed (TimezoneOffset*), OffsetFormat::format
        #[kani::proof]
        #[kani::unwind(9)]
        fn $name() {
            use chrono::FixedOffset;
            let secs: i32 = kani::any();
            kani::assume(secs > -86_400 && secs < 86_400);
            // DelayedFormat::new_with_offset keeps (offset.to_string(), offset.fix()); the name is only used by %Z.
            // A private Offset type with an empty Display avoids core::fmt's padding machinery, which is not the subject.
            let off = QuietOffset(FixedOffset::east_opt(secs).unwrap());
            let date = NaiveDate::from_ymd_opt(2001, 7, 8).unwrap();
            let time = NaiveTime::from_hms_opt(12, 34, 59).unwrap();
            let which: u8 = $which;
            let item = [Item::Fixed($fx)];
            let mut buf = Buf::<12>::new();
            let df = chrono::format::DelayedFormat::new_with_offset(Some(date), Some(time), &off, item.iter());
            assert!(df.write_to(&mut buf).is_ok() && !buf.overflow);
            let b = &buf.b;
            let a = if secs < 0 { -secs } else { secs } as u32;
            assert!(b[0] == if secs < 0 { b'-' } else { b'+' });
            let d2 = |i: usize| -> u32 { ((b[i] - b'0') * 10 + (b[i + 1] - b'0')) as u32 };
            let isd = |i: usize| -> bool { b[i] >= b'0' && b[i] <= b'9' && b[i + 1] >= b'0' && b[i + 1] <= b'9' };
            match which {
                0 => {
                    let m = (a + 30) / 60;
                    assert!(buf.len == 5 && isd(1) && isd(3) && d2(1) == m / 60 && d2(3) == m % 60);
                }
                1 => {
                    let m = (a + 30) / 60;
                    assert!(buf.len == 6 && isd(1) && b[3] == b':' && isd(4) && d2(1) == m / 60 && d2(4) == m % 60);
                }
                2 => {
                    assert!(buf.len == 9 && isd(1) && b[3] == b':' && isd(4) && b[6] == b':' && isd(7));
                    assert!(d2(1) == a / 3600 && d2(4) == a / 60 % 60 && d2(7) == a % 60);
                }
                _ => {
                    assert!(buf.len == 3 && isd(1) && d2(1) == a / 3600);
                }
            }
            kani::cover!(a % 60 >= 30 && (a / 60) % 60 == 59);
            kani::cover!(secs < 0);
        }
    };
}
offset_item!(c12_offset_z, chrono::format::Fixed::TimezoneOffset, 0);
offset_item!(c12_offset_colon, chrono::format::Fixed::TimezoneOffsetColon, 1);
offset_item!(c12_offset_double_colon, chrono::format::Fixed::TimezoneOffsetDoubleColon, 2);
offset_item!(c12_offset_triple_colon, chrono::format::Fixed::TimezoneOffsetTripleColon, 3);

// @ob tier=quick timeout=900 mem=8
// @desc %Y for years 0..=9999 with every padding modifier: zero padding to four digits by default, `%-Y` without padding, `%_Y` space padded to width four, never a sign (quick instance of c12_year, which covers all years)
// @bounds all dates with year 0..=9999 x {Zero, Space, None}
// @funcs DelayedFormat::format_numeric (Year), write_year fast path, write_n
#[kani::proof]
#[kani::unwind(9)]
fn c12_year_small() {
    let d = any_date();
    let y = d.year();
    kani::assume(y >= 0 && y <= 9999);
    let (pad, p) = any_pad();
    let buf = render_date(d, Numeric::Year, pad);
    assert!(int_ok(&buf, y as i64, 4, p, false));
    kani::cover!(y < 10 && p == 2);
    kani::cover!(y >= 1000);
    kani::cover!(y < 1000 && p == 0);
}
