//! C11 — RFC 2822 output has the documented form with the correct weekday (writer side).
use crate::refcal::*;
use crate::util::*;
use chrono::format::{Fixed, Item};
use chrono::{Datelike, FixedOffset, NaiveDate, NaiveTime, TimeZone, Timelike};

fn two(b: &[u8], i: usize) -> u32 {
    ((b[i] - b'0') * 10 + (b[i + 1] - b'0')) as u32
}
const WD: [&[u8; 3]; 7] = [b"Mon", b"Tue", b"Wed", b"Thu", b"Fri", b"Sat", b"Sun"];
const MON: [&[u8; 3]; 12] = [b"Jan", b"Feb", b"Mar", b"Apr", b"May", b"Jun", b"Jul", b"Aug", b"Sep", b"Oct", b"Nov", b"Dec"];

// @ob tier=thorough timeout=7200 mem=24
// @desc RFC 2822 rendering (the real write_rfc2822 through the public Fixed::RFC2822 item): for every date-time with wall-clock year 0..=9999 and whole-minute offset the text is `Www, D Mon YYYY HH:MM:SS +HHMM` (day without leading zero, second 60 for a leap second) with the weekday of the independent reference calendar, month name, and exact offset sign/hours/minutes
// @bounds wall-clock years 0..=9999, all times incl. leap fraction on second 59, whole-minute offsets in (-24h, 24h); output <= 31 bytes
// @funcs write_rfc2822 (via Fixed::RFC2822), OffsetFormat::format, write_hundreds, locales::{short_weekdays, short_months}
#[kani::proof]
#[kani::unwind(13)]
fn c11_writer_shape() {
    let d = any_date();
    let (y, m, dd) = (d.year(), d.month(), d.day());
    kani::assume(y >= 0 && y <= 9999 && valid_ymd(y, m, dd));
    let secs: u32 = kani::any();
    let frac: u32 = kani::any();
    kani::assume(secs < 86_400 && (frac < 1_000_000_000 || (frac < 2_000_000_000 && secs % 60 == 59)));
    let t = NaiveTime::from_num_seconds_from_midnight_opt(secs, frac).unwrap();
    let mins: i32 = kani::any();
    kani::assume(mins > -1440 && mins < 1440);
    let off = FixedOffset::east_opt(mins * 60).unwrap();
    let buf: Buf<32> = render_wall(d, t, off, &[Item::Fixed(Fixed::RFC2822)]);
    let b = &buf.b;
    let wd = WD[weekday_index(y, m, dd) as usize];
    assert!(b[0] == wd[0] && b[1] == wd[1] && b[2] == wd[2] && b[3] == b',' && b[4] == b' ');
    let mut p = 5;
    if dd < 10 {
        assert!(b[p] == b'0' + dd as u8);
        p += 1;
    } else {
        assert!(two(b, p) == dd);
        p += 2;
    }
    let mn = MON[(m - 1) as usize];
    assert!(b[p] == b' ' && b[p + 1] == mn[0] && b[p + 2] == mn[1] && b[p + 3] == mn[2] && b[p + 4] == b' ');
    p += 5;
    assert!(two(b, p) * 100 + two(b, p + 2) == y as u32 && b[p + 4] == b' ');
    p += 5;
    let leap = frac >= 1_000_000_000;
    assert!(two(b, p) == secs / 3600 && b[p + 2] == b':' && two(b, p + 3) == secs / 60 % 60 && b[p + 5] == b':' && two(b, p + 6) == secs % 60 + if leap { 1 } else { 0 } && b[p + 8] == b' ');
    p += 9;
    let a = if mins < 0 { -mins } else { mins } as u32;
    assert!(b[p] == if mins < 0 { b'-' } else { b'+' } && two(b, p + 1) == a / 60 && two(b, p + 3) == a % 60);
    assert!(buf.len == p + 5);
    kani::cover!(dd < 10 && leap);
    kani::cover!(mins < 0);
}

fn render2822(d: NaiveDate, t: NaiveTime, off: FixedOffset) -> Buf<32> {
    render_wall(d, t, off, &[Item::Fixed(Fixed::RFC2822)])
}

// @ob tier=quick timeout=900 mem=8
// @desc RFC 2822 writer, date part: for every wall-clock date with year 0..=9999 (time 12:34:56, offset +0000) the text is `Www, D Mon YYYY 12:34:56 +0000` with the weekday of the independent reference calendar, the day without leading zero, the English month abbreviation and the four-digit year
// @bounds all dates with year 0..=9999; time of day and offset concrete
// @funcs write_rfc2822 (weekday, day, month, year), locales::{short_weekdays, short_months}
// @outside time / offset rendering: c11_writer_time_part
#[kani::proof]
#[kani::unwind(13)]
fn c11_writer_date_part() {
    let d = any_date();
    let (y, m, dd) = (d.year(), d.month(), d.day());
    kani::assume(y >= 0 && y <= 9999 && valid_ymd(y, m, dd));
    let buf = render2822(d, NaiveTime::from_hms_opt(12, 34, 56).unwrap(), FixedOffset::east_opt(0).unwrap());
    let b = &buf.b;
    let wd = WD[weekday_index(y, m, dd) as usize];
    assert!(b[0] == wd[0] && b[1] == wd[1] && b[2] == wd[2] && b[3] == b',' && b[4] == b' ');
    let mut p = 5;
    if dd < 10 {
        assert!(b[p] == b'0' + dd as u8);
        p += 1;
    } else {
        assert!(two(b, p) == dd);
        p += 2;
    }
    let mn = MON[(m - 1) as usize];
    assert!(b[p] == b' ' && b[p + 1] == mn[0] && b[p + 2] == mn[1] && b[p + 3] == mn[2] && b[p + 4] == b' ');
    p += 5;
    assert!(two(b, p) * 100 + two(b, p + 2) == y as u32 && b[p + 4] == b' ' && b[p + 5] == b'1' && b[p + 6] == b'2');
    assert!(buf.len == p + 19);
    kani::cover!(dd < 10);
    kani::cover!(m == 2 && dd == 29);
}

// @ob tier=quick timeout=900 mem=8
// @desc RFC 2822 writer, time / offset part: on the fixed wall-clock date Sun, 8 Jul 2001, for every time of day (second 60 for a leap second) and every whole-minute offset the text ends with HH:MM:SS +HHMM / -HHMM with exact fields
// @bounds all times of day incl. leap fraction on second 59 x all whole-minute offsets in (-24h, 24h); date concrete
// @funcs write_rfc2822 (time), OffsetFormat::format
#[kani::proof]
#[kani::unwind(13)]
fn c11_writer_time_part() {
    let secs: u32 = kani::any();
    let frac: u32 = kani::any();
    kani::assume(secs < 86_400 && (frac < 1_000_000_000 || (frac < 2_000_000_000 && secs % 60 == 59)));
    let t = NaiveTime::from_num_seconds_from_midnight_opt(secs, frac).unwrap();
    let mins: i32 = kani::any();
    kani::assume(mins > -1440 && mins < 1440);
    let off = FixedOffset::east_opt(mins * 60).unwrap();
    let buf = render2822(NaiveDate::from_ymd_opt(2001, 7, 8).unwrap(), t, off);
    let b = &buf.b;
    // "Sun, 8 Jul 2001 " is 16 bytes
    assert!(b[0] == b'S' && b[1] == b'u' && b[2] == b'n' && b[5] == b'8' && b[7] == b'J' && b[11] == b'2' && b[14] == b'1' && b[15] == b' ');
    let p = 16;
    let leap = frac >= 1_000_000_000;
    assert!(two(b, p) == secs / 3600 && b[p + 2] == b':' && two(b, p + 3) == secs / 60 % 60 && b[p + 5] == b':' && two(b, p + 6) == secs % 60 + if leap { 1 } else { 0 } && b[p + 8] == b' ');
    let a = if mins < 0 { -mins } else { mins } as u32;
    assert!(b[p + 9] == if mins < 0 { b'-' } else { b'+' } && two(b, p + 10) == a / 60 && two(b, p + 12) == a % 60);
    assert!(buf.len == p + 14);
    kani::cover!(leap);
    kani::cover!(mins < 0);
}

fn read2822(bytes: &[u8]) -> chrono::format::Parsed {
    // the symbolic bytes are ASCII digits and the rest is a literal: valid UTF-8 by construction
    let s = unsafe { core::str::from_utf8_unchecked(bytes) };
    let mut p = chrono::format::Parsed::new();
    let r = chrono::format::parse(&mut p, s, [Item::Fixed(Fixed::RFC2822)].iter());
    assert!(r.is_ok());
    p
}

// @ob tier=extra timeout=1800 mem=12
// @desc RFC 2822 reader, obsolete two-digit years (the real parse_rfc2822 through the public Fixed::RFC2822 item): in `1 Jan YY 00:00 +0000`, for every two-digit year text, YY < 50 is read as 20YY and YY >= 50 as 19YY; the other fields are read as written
// @bounds all 100 two-digit year texts; the rest of the input concrete (day 1, Jan, 00:00 without seconds, +0000)
// @funcs parse_rfc2822 (via format::parse), scan::{number, short_month0, space, char, timezone_offset_2822}, Parsed::set_*
#[kani::proof]
#[kani::unwind(22)]
fn c11_reader_year2() {
    let (a, b): (u8, u8) = (kani::any(), kani::any());
    kani::assume(a < 10 && b < 10);
    let mut t = *b"1 Jan 00 00:00 +0000";
    t[6] = b'0' + a;
    t[7] = b'0' + b;
    let p = read2822(&t);
    let yy = (a * 10 + b) as i32;
    assert!(p.year() == Some(if yy < 50 { 2000 + yy } else { 1900 + yy }));
    assert!(p.month() == Some(1) && p.day() == Some(1) && p.hour_div_12() == Some(0) && p.hour_mod_12() == Some(0) && p.minute() == Some(0) && p.second() == None && p.offset() == Some(0));
    kani::cover!(yy == 49);
    kani::cover!(yy == 50);
}

// @ob tier=extra timeout=1800 mem=12
// @desc RFC 2822 reader, obsolete three-digit and plain four-digit years: in `1 Jan YYY 00:00 +0000` every three-digit year text is read as 1900 + YYY, and in `1 Jan YYYY 00:00 +0000` every four-digit text as itself
// @bounds all 1000 three-digit and all 10000 four-digit year texts; the rest of the input concrete
// @funcs parse_rfc2822 (via format::parse), scan::number, Parsed::set_year
#[kani::proof]
#[kani::unwind(23)]
fn c11_reader_year34() {
    let (a, b, c, d): (u8, u8, u8, u8) = (kani::any(), kani::any(), kani::any(), kani::any());
    kani::assume(a < 10 && b < 10 && c < 10 && d < 10);
    let mut t3 = *b"1 Jan 000 00:00 +0000";
    t3[6] = b'0' + a;
    t3[7] = b'0' + b;
    t3[8] = b'0' + c;
    let p = read2822(&t3);
    assert!(p.year() == Some(1900 + a as i32 * 100 + b as i32 * 10 + c as i32));
    let mut t4 = *b"1 Jan 0000 00:00 +0000";
    t4[6] = b'0' + a;
    t4[7] = b'0' + b;
    t4[8] = b'0' + c;
    t4[9] = b'0' + d;
    let q = read2822(&t4);
    assert!(q.year() == Some(a as i32 * 1000 + b as i32 * 100 + c as i32 * 10 + d as i32));
    kani::cover!(a == 9 && b == 9 && c == 9 && d == 9);
}
