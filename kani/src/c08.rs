//! C08 — month stepping, field replacement and week helpers.
use crate::refcal::*;
use crate::util::*;
use chrono::{Datelike, Months, NaiveDate, Weekday};

// @ob tier=quick timeout=900
// @desc checked_add_months / checked_sub_months move year*12+month by exactly N and keep the day clamped to the target month's length; None exactly when the target year is out of range (or N > i32::MAX)
// @bounds all dates x all u32 month counts
// @funcs NaiveDate::{checked_add_months, checked_sub_months, diff_months}, Mdf::{with_month, with_day}, NaiveDate::with_mdf
#[kani::proof]
fn c08_add_sub_months() {
    let dt = any_date();
    let (y, m, d) = (dt.year(), dt.month(), dt.day());
    kani::assume(valid_ymd(y, m, d));
    let n: u32 = kani::any();
    let idx = y as i64 * 12 + (m as i64 - 1);
    for sign in [1i64, -1i64] {
        let r = if sign == 1 { dt.checked_add_months(Months::new(n)) } else { dt.checked_sub_months(Months::new(n)) };
        let t = idx + sign * n as i64;
        let ty = t.div_euclid(12);
        let tm = (t.rem_euclid(12) + 1) as u32;
        match r {
            Some(r) => {
                assert!(ty >= MIN_YEAR as i64 && ty <= MAX_YEAR as i64);
                assert!(r.year() as i64 == ty && r.month() == tm);
                let dim = days_in_month(ty as i32, tm);
                assert!(r.day() == if d < dim { d } else { dim });
            }
            None => assert!(n > i32::MAX as u32 || ty < MIN_YEAR as i64 || ty > MAX_YEAR as i64),
        }
    }
    kani::cover!(d == 31 && dt.checked_add_months(Months::new(n)).map(|r| r.day()) == Some(28));
    kani::cover!(dt.checked_sub_months(Months::new(n)).is_none() && n < 100);
    kani::cover!(n == 0);
}

// @ob tier=quick timeout=900
// @desc with_year/with_month/with_month0/with_day/with_day0/with_ordinal/with_ordinal0 return the date with exactly that field replaced and the others kept, or None when no such date exists (incl. u32::MAX arguments of the 0-based variants)
// @bounds all dates x all i32/u32 replacement values; reference month scan unwound 13
// @funcs Datelike::{with_year, with_month, with_month0, with_day, with_day0, with_ordinal, with_ordinal0} for NaiveDate, Mdf::{with_month, with_day, with_flags}, NaiveDate::with_mdf
#[kani::proof]
#[kani::unwind(13)]
fn c08_with_fields() {
    let dt = any_date();
    let (y, m, d, o) = (dt.year(), dt.month(), dt.day(), dt.ordinal());
    kani::assume(valid_ymd(y, m, d) && valid_yo(y, o));
    let yy: i32 = kani::any();
    let x: u32 = kani::any();
    assert!(dt.with_year(yy) == NaiveDate::from_ymd_opt(yy, m, d));
    assert!(dt.with_month(x) == NaiveDate::from_ymd_opt(y, x, d));
    assert!(dt.with_day(x) == NaiveDate::from_ymd_opt(y, m, x));
    assert!(dt.with_ordinal(x) == NaiveDate::from_yo_opt(y, x));
    let x1 = x.checked_add(1);
    assert!(dt.with_month0(x) == x1.and_then(|v| NaiveDate::from_ymd_opt(y, v, d)));
    assert!(dt.with_day0(x) == x1.and_then(|v| NaiveDate::from_ymd_opt(y, m, v)));
    assert!(dt.with_ordinal0(x) == x1.and_then(|v| NaiveDate::from_yo_opt(y, v)));
    kani::cover!(m == 2 && d == 29 && dt.with_year(yy).is_none() && year_in_range(yy));
    kani::cover!(x == u32::MAX);
    kani::cover!(d == 31 && dt.with_month(x).is_none() && x >= 1 && x <= 12);
}

// @ob tier=thorough timeout=5400 mem=12
// @desc NaiveWeek: checked_first_day is the given weekday at most six days before the date, checked_last_day six days after it; None only when that day is outside the supported range; checked_days spans exactly those (day distances computed on (year, ordinal) by the reference calendar)
// @bounds all dates x all 7 start weekdays
// @funcs NaiveDate::week, NaiveWeek::{checked_first_day, checked_last_day, checked_days}
#[kani::proof]
fn c08_week_bounds() {
    let dt = any_date();
    let (y, o) = (dt.year(), dt.ordinal());
    kani::assume(valid_yo(y, o));
    let start = any_weekday();
    let w = dt.week(start);
    let back = (7 + wd_index(dt.weekday()) - wd_index(start)) % 7; // days since the week's first day
    let fwd = 6 - back;
    let first = w.checked_first_day();
    let last = w.checked_last_day();
    match first {
        Some(f) => {
            assert!(f.weekday() == start);
            if o > back {
                assert!(f.year() == y && f.ordinal() == o - back);
            } else {
                assert!(f.year() == y - 1 && f.ordinal() == days_in_year(y - 1) + o - back);
            }
        }
        None => assert!(y == MIN_YEAR && o <= back),
    }
    match last {
        Some(l) => {
            assert!(l.weekday() == start.pred());
            if o + fwd <= days_in_year(y) {
                assert!(l.year() == y && l.ordinal() == o + fwd);
            } else {
                assert!(l.year() == y + 1 && l.ordinal() == o + fwd - days_in_year(y));
            }
        }
        None => assert!(y == MAX_YEAR && o + fwd > days_in_year(y)),
    }
    match w.checked_days() {
        Some(r) => assert!(Some(*r.start()) == first && Some(*r.end()) == last),
        None => assert!(first.is_none() || last.is_none()),
    }
    kani::cover!(first.is_none());
    kani::cover!(last.is_none());
    kani::cover!(back == 6);
}

// @ob tier=quick timeout=900
// @desc years_since: NaiveDate::years_since(base) and DateTime<Utc>::years_since(base) return the number of whole years elapsed -- year difference minus one when the (month, day[, time of day]) of self is earlier than base's -- and None when self is before base
// @bounds all pairs of dates; all pairs of UTC date-times (non-leap times); reference month scan unwound 13
// @funcs NaiveDate::years_since, DateTime::years_since
#[kani::proof]
#[kani::unwind(13)]
fn c08_years_since() {
    use chrono::{NaiveTime, TimeZone, Utc};
    let (a, b) = (any_date(), any_date());
    let (ya, oa, yb, ob) = (a.year(), a.ordinal(), b.year(), b.ordinal());
    kani::assume(valid_yo(ya, oa) && valid_yo(yb, ob));
    let (ma, da) = md_of_ordinal(ya, oa);
    let (mb, db) = md_of_ordinal(yb, ob);
    let want = |earlier: bool| -> Option<u32> {
        let y = ya as i64 - yb as i64 - if earlier { 1 } else { 0 };
        if y >= 0 { Some(y as u32) } else { None }
    };
    assert!(a.years_since(b) == want((ma, da) < (mb, db)));
    let (sa, sb): (u32, u32) = (kani::any(), kani::any());
    kani::assume(sa < 86_400 && sb < 86_400);
    let ta = NaiveTime::from_num_seconds_from_midnight_opt(sa, 0).unwrap();
    let tb = NaiveTime::from_num_seconds_from_midnight_opt(sb, 0).unwrap();
    let (dta, dtb) = (Utc.from_utc_datetime(&a.and_time(ta)), Utc.from_utc_datetime(&b.and_time(tb)));
    assert!(dta.years_since(dtb) == want((ma, da, sa) < (mb, db, sb)));
    kani::cover!(ma == mb && da == db && sa < sb && ya > yb);
    kani::cover!(a.years_since(b).is_none());
}

// @ob tier=thorough timeout=2400 mem=12
// @desc NaiveDate::from_weekday_of_month_opt(year, month, weekday, n): Some exactly when the month exists, n >= 1 and the n-th such weekday falls inside the month; then the date lies in that year and month, has that weekday (independent reference calendar), and is the n-th occurrence (day in 7(n-1)+1 ..= 7n); no overflow for n up to 255
// @bounds all i32 years x all u32 months x 7 weekdays x all u8 n
// @funcs NaiveDate::from_weekday_of_month_opt, from_ymd_opt, weekday
#[kani::proof]
#[kani::unwind(2)]
fn c08_weekday_of_month() {
    let y: i32 = kani::any();
    let m: u32 = kani::any();
    let wd = any_weekday();
    let n: u8 = kani::any();
    let r = NaiveDate::from_weekday_of_month_opt(y, m, wd, n);
    let month_ok = valid_ymd(y, m, 1);
    if !month_ok || n == 0 {
        assert!(r.is_none());
        return;
    }
    let first = weekday_index(y, m, 1); // Monday = 0
    let day = (n as u32 - 1) * 7 + (7 + wd.num_days_from_monday() - first) % 7 + 1;
    assert!(r.is_some() == (day <= days_in_month(y, m)));
    if let Some(d) = r {
        assert!(d.year() == y && d.month() == m && d.day() == day);
        assert!(weekday_index(y, m, d.day()) == wd.num_days_from_monday());
        assert!(d.day() >= 7 * (n as u32 - 1) + 1 && d.day() <= 7 * n as u32);
    }
    kani::cover!(r.is_some() && n == 5);
    kani::cover!(r.is_none() && n == 5 && month_ok);
}
