//! C13 — parsing with a format string inverts formatting with it (bounded family of formats).
use crate::refcal::*;
use crate::util::*;
use chrono::{Datelike, NaiveDate, NaiveTime, Timelike};
use core::fmt::Write;

// Item-level inverse: the item sequence a format string denotes is formatted by the real writer and parsed back by the
// real `format::parse`; the text -> items step (StrftimeItems) is the subject of C15's progress harnesses and is not
// repeated here, which keeps core::fmt's padding machinery and the strftime scanner out of the formula.
// @ob tier=quick timeout=900 mem=14
// @desc item-level format/parse inverse for %H:%M:%S: the real writer's text for the items [Hour, ":", Minute, ":", Second] parses back (format::parse + Parsed::to_naive_time) to the same time of day, for every time with fraction 0 and for every leap second (printed as 60, read back as the leap representation)
// @bounds all times of day with fraction 0, plus fraction exactly 10^9 on a second 59 (the leap representation the constructors admit); items concrete
// @funcs DelayedFormat::write_to, format_numeric, format::parse / parse_internal, scan::number, Parsed::{set_*, to_naive_time}
#[kani::proof]
#[kani::unwind(10)]
fn c13_items_hms() {
    use chrono::format::{parse, Item, Numeric, Pad, Parsed};
    let s: u32 = kani::any();
    let leap: bool = kani::any();
    kani::assume(s < 86_400 && (!leap || s % 60 == 59));
    let t = NaiveTime::from_num_seconds_from_midnight_opt(s, if leap { 1_000_000_000 } else { 0 }).unwrap();
    let items = [
        Item::Numeric(Numeric::Hour, Pad::Zero),
        Item::Literal(":"),
        Item::Numeric(Numeric::Minute, Pad::Zero),
        Item::Literal(":"),
        Item::Numeric(Numeric::Second, Pad::Zero),
    ];
    let mut buf = Buf::<8>::new();
    assert!(t.format_with_items(items.iter()).write_to(&mut buf).is_ok() && !buf.overflow && buf.len == 8);
    let mut p = Parsed::new();
    assert!(parse(&mut p, buf.as_str(), items.iter()).is_ok());
    let back = p.to_naive_time();
    assert!(back.is_ok());
    let b = back.unwrap();
    assert!(b.num_seconds_from_midnight() == s && b.nanosecond() == t.nanosecond());
    kani::cover!(leap && s % 60 == 59);
    kani::cover!(s == 86_399);
}

// @ob tier=thorough timeout=2400 mem=14
// @desc item-level format/parse inverse for %Y-%m-%d (years 0..=9999): the real writer's text for [Year, "-", Month, "-", Day] parses back (format::parse + Parsed::to_naive_date) to the same date
// @bounds all dates with year 0..=9999; items concrete
// @funcs DelayedFormat::write_to, format_numeric, write_year, format::parse / parse_internal, scan::number, Parsed::{set_*, to_naive_date}
#[kani::proof]
#[kani::unwind(12)]
fn c13_items_ymd() {
    use chrono::format::{parse, Item, Numeric, Pad, Parsed};
    let d = any_date();
    kani::assume(d.year() >= 0 && d.year() <= 9999);
    let items = [
        Item::Numeric(Numeric::Year, Pad::Zero),
        Item::Literal("-"),
        Item::Numeric(Numeric::Month, Pad::Zero),
        Item::Literal("-"),
        Item::Numeric(Numeric::Day, Pad::Zero),
    ];
    let mut buf = Buf::<10>::new();
    assert!(d.format_with_items(items.iter()).write_to(&mut buf).is_ok() && !buf.overflow && buf.len == 10);
    let mut p = Parsed::new();
    assert!(parse(&mut p, buf.as_str(), items.iter()).is_ok());
    assert!(p.to_naive_date() == Ok(d));
    kani::cover!(d.month() == 2 && d.day() == 29);
    kani::cover!(d.year() == 0);
}

macro_rules! date_format_roundtrip {
    ($name:ident, $fmt:expr, $cap:expr, $ylo:expr, $yhi:expr) => {
        // @ob tier=extra timeout=5400 mem=16
        // @desc format/parse inverse for one concrete date format string of the family (%Y-%m-%d, %Y%m%d is excluded as ambiguous, %Y-%j, %G-W%V-%u, %d/%m/%Y): NaiveDate::parse_from_str(&date.format(f).to_string(), f) == date for every date the format expresses
        // @bounds the listed format strings (concrete); all dates with year in the stated window; text in a fixed buffer
        // @funcs StrftimeItems, DelayedFormat::write_to, format::parse / parse_internal, scan::number, Parsed::to_naive_date, NaiveDate::parse_from_str
        #[kani::proof]
        #[kani::unwind(14)]
        fn $name() {
            let d = any_date();
            kani::assume(d.year() >= $ylo && d.year() <= $yhi);
            let mut buf = Buf::<$cap>::new();
            assert!(write!(buf, "{}", d.format($fmt)).is_ok() && !buf.overflow);
            let back = NaiveDate::parse_from_str(buf.as_str(), $fmt);
            assert!(back == Ok(d));
            kani::cover!(d.month() == 2 && d.day() == 29);
        }
    };
}
date_format_roundtrip!(c13_ymd_dash, "%Y-%m-%d", 12, 0, 9999);
date_format_roundtrip!(c13_year_ordinal, "%Y-%j", 10, 0, 9999);
date_format_roundtrip!(c13_iso_week_date, "%G-W%V-%u", 12, 1, 9998);

// @ob tier=extra timeout=5400 mem=16
// @desc format/parse inverse for the time format %H:%M:%S (second 60 for leap seconds reads back as the leap representation with zero fraction lost only below the printed precision: the fraction is not printed by this format, so times are taken with fraction 0 or exactly 10^9)
// @bounds all times of day with fraction 0 or 10^9 (on second 59)
// @funcs NaiveTime::parse_from_str, format::parse, Parsed::to_naive_time
#[kani::proof]
#[kani::unwind(14)]
fn c13_hms() {
    let s: u32 = kani::any();
    let leap: bool = kani::any();
    kani::assume(s < 86_400 && (!leap || s % 60 == 59));
    let t = NaiveTime::from_num_seconds_from_midnight_opt(s, if leap { 1_000_000_000 } else { 0 }).unwrap();
    let mut buf = Buf::<10>::new();
    assert!(write!(buf, "{}", t.format("%H:%M:%S")).is_ok() && !buf.overflow);
    assert!(NaiveTime::parse_from_str(buf.as_str(), "%H:%M:%S") == Ok(t));
    kani::cover!(leap);
}

// @ob tier=thorough timeout=4800 mem=16
// @desc item-level format/parse inverse for %G-W%V-%u over ALL ISO week dates incl. negative and five/six-digit ISO years (the writer prints an explicit sign outside 0..=9999, the reader must accept it): the real writer's text for [IsoYear, "-W", IsoWeek, "-", WeekdayFromMon] parses back (format::parse + Parsed::to_naive_date) to the same date
// @bounds all dates; items concrete; text <= 14 bytes
// @funcs DelayedFormat::write_to, format_numeric (IsoYear, IsoWeek, WeekdayFromMon), write_year / write_n, format::parse / parse_internal, scan::number, Parsed::{set_isoyear, set_isoweek, set_weekday, to_naive_date}
#[kani::proof]
#[kani::unwind(16)]
fn c13_items_iso_week_date() {
    use chrono::format::{parse, Item, Numeric, Pad, Parsed};
    let d = any_date();
    let items = [
        Item::Numeric(Numeric::IsoYear, Pad::Zero),
        Item::Literal("-W"),
        Item::Numeric(Numeric::IsoWeek, Pad::Zero),
        Item::Literal("-"),
        Item::Numeric(Numeric::WeekdayFromMon, Pad::Zero),
    ];
    let mut buf = Buf::<14>::new();
    assert!(d.format_with_items(items.iter()).write_to(&mut buf).is_ok() && !buf.overflow);
    let mut p = Parsed::new();
    assert!(parse(&mut p, buf.as_str(), items.iter()).is_ok());
    assert!(p.to_naive_date() == Ok(d));
    kani::cover!(d.iso_week().year() < 0);
    kani::cover!(d.iso_week().year() > 9999);
}
