//! C13 — parsing with a format string inverts formatting with it (bounded family of formats).
use crate::refcal::*;
use crate::util::*;
use chrono::{Datelike, NaiveDate, NaiveTime, Timelike};
use core::fmt::Write;

macro_rules! date_format_roundtrip {
    ($name:ident, $fmt:expr, $cap:expr, $ylo:expr, $yhi:expr) => {
        // @ob tier=thorough timeout=5400 mem=16
        // @desc format/parse inverse for one concrete date format string of the family (%Y-%m-%d, %Y%m%d is excluded as ambiguous, %Y-%j, %G-W%V-%u, %d/%m/%Y): NaiveDate::parse_from_str(&date.format(f).to_string(), f) == date for every date the format expresses
        // @bounds the listed format strings (concrete); all dates with year in the stated window; text in a fixed buffer
        // @funcs StrftimeItems, DelayedFormat::write_to, format::parse / parse_internal, scan::number, Parsed::to_naive_date, NaiveDate::parse_from_str
        #[kani::proof]
        #[kani::unwind(14)]
        fn $name() {
            let d = any_date();
            kani::assume(d.year() >= $ylo && d.year() <= $yhi);
            let mut buf = Buf::<$cap>::new();
            assert!(write!(buf, "{}", d.format($fmt)).is_ok() && !buf.overflow);
            let back = NaiveDate::parse_from_str(buf.as_str(), $fmt);
            assert!(back == Ok(d));
            kani::cover!(d.month() == 2 && d.day() == 29);
        }
    };
}
date_format_roundtrip!(c13_ymd_dash, "%Y-%m-%d", 12, 0, 9999);
date_format_roundtrip!(c13_year_ordinal, "%Y-%j", 10, 0, 9999);
date_format_roundtrip!(c13_iso_week_date, "%G-W%V-%u", 12, 1, 9998);

// @ob tier=thorough timeout=5400 mem=16
// @desc format/parse inverse for the time format %H:%M:%S (second 60 for leap seconds reads back as the leap representation with zero fraction lost only below the printed precision: the fraction is not printed by this format, so times are taken with fraction 0 or exactly 10^9)
// @bounds all times of day with fraction 0 or 10^9 (on second 59)
// @funcs NaiveTime::parse_from_str, format::parse, Parsed::to_naive_time
#[kani::proof]
#[kani::unwind(14)]
fn c13_hms() {
    let s: u32 = kani::any();
    let leap: bool = kani::any();
    kani::assume(s < 86_400 && (!leap || s % 60 == 59));
    let t = NaiveTime::from_num_seconds_from_midnight_opt(s, if leap { 1_000_000_000 } else { 0 }).unwrap();
    let mut buf = Buf::<10>::new();
    assert!(write!(buf, "{}", t.format("%H:%M:%S")).is_ok() && !buf.overflow);
    assert!(NaiveTime::parse_from_str(buf.as_str(), "%H:%M:%S") == Ok(t));
    kani::cover!(leap);
}
