#![allow(dead_code, unused_imports, unused_variables, unused_mut, clippy::all)]
pub mod refcal;
#[macro_use]
pub mod util;
#[cfg(kani)]
mod c19;
#[cfg(kani)]
mod c01;
#[cfg(kani)]
mod c07;
#[cfg(kani)]
mod c08;
#[cfg(kani)]
mod c04;
#[cfg(kani)]
mod c14;
#[cfg(kani)]
mod c15;
#[cfg(kani)]
mod c05;
#[cfg(kani)]
mod c16;
#[cfg(kani)]
mod c12;
#[cfg(kani)]
mod c09;
#[cfg(kani)]
mod c10;
#[cfg(kani)]
mod c11;
#[cfg(kani)]
mod c13;
