//! C01 — calendar, ordinal, ISO-week and day-count forms of a date agree (Kani part).
use crate::refcal::*;
use crate::util::*;
use chrono::{Datelike, NaiveDate, Weekday};

// @ob tier=quick timeout=600
// @desc from_ymd_opt returns Some exactly for existing civil dates with year in [-262143, 262142]; year/month/day/month0/day0/leap_year accessors give the arguments back; ordinal equals the reference cumulative month lengths
// @bounds all i32 x u32 x u32 argument tuples; no loops
// @funcs NaiveDate::from_ymd_opt, from_mdf, Mdf::new, Mdf::ordinal_and_flags, MDL_TO_OL, YearFlags::from_year, YEAR_TO_FLAGS, NaiveDate::{year, month, day, month0, day0, ordinal, ordinal0, leap_year}, Mdf::from_ol, OL_TO_MDL
#[kani::proof]
fn c01_ymd_valid_iff() {
    let (y, m, d): (i32, u32, u32) = (kani::any(), kani::any(), kani::any());
    match NaiveDate::from_ymd_opt(y, m, d) {
        Some(dt) => {
            assert!(valid_ymd(y, m, d));
            assert!(dt.year() == y && dt.month() == m && dt.day() == d);
            assert!(dt.month0() == m - 1 && dt.day0() == d - 1);
            assert!(dt.leap_year() == is_leap(y));
            assert!(dt.ordinal() == ordinal_of(y, m, d) && dt.ordinal0() == ordinal_of(y, m, d) - 1);
            kani::cover!(m == 2 && d == 29 && y % 400 == 0);
            kani::cover!(y == MIN_YEAR);
            kani::cover!(y == MAX_YEAR && m == 12 && d == 31);
        }
        None => {
            assert!(!valid_ymd(y, m, d));
            kani::cover!(year_in_range(y) && m == 2 && d == 29);
            kani::cover!(y == MAX_YEAR + 1 && m == 1 && d == 1);
        }
    }
}

// @ob tier=quick timeout=600
// @desc from_yo_opt returns Some exactly for 1 <= ordinal <= 365/366 and year in range; accessors return year/ordinal and the reference (month, day); from_ymd_opt of those gives the identical date (exactly one date per form)
// @bounds all i32 x u32 argument pairs; reference month scan unwound 13
// @funcs NaiveDate::from_yo_opt, from_ordinal_and_flags, OL_MASK/MAX_OL check, NaiveDate::{month, day, ordinal}, Mdf::from_ol, OL_TO_MDL, from_ymd_opt
#[kani::proof]
#[kani::unwind(13)]
fn c01_yo_valid_iff() {
    let (y, o): (i32, u32) = (kani::any(), kani::any());
    match NaiveDate::from_yo_opt(y, o) {
        Some(dt) => {
            assert!(valid_yo(y, o));
            assert!(dt.year() == y && dt.ordinal() == o);
            let (m, d) = md_of_ordinal(y, o);
            assert!(dt.month() == m && dt.day() == d);
            assert!(NaiveDate::from_ymd_opt(y, m, d) == Some(dt));
            kani::cover!(o == 366);
            kani::cover!(o == 60 && !is_leap(y));
        }
        None => {
            assert!(!valid_yo(y, o));
            kani::cover!(o == 366 && year_in_range(y));
        }
    }
}

// @ob tier=quick timeout=600
// @desc weekday() of every date equals the weekday computed from Hinnant's day count (independent of YEAR_TO_FLAGS)
// @bounds all dates (i32 year x u32 ordinal through from_yo_opt)
// @funcs NaiveDate::weekday, YearFlags::from_year, YEAR_TO_FLAGS
#[kani::proof]
#[kani::unwind(13)]
fn c01_weekday() {
    let dt = any_date();
    let (y, m, d) = (dt.year(), dt.month(), dt.day());
    kani::assume(valid_ymd(y, m, d)); // established by c01_yo_valid_iff; keeps the formula small
    assert!(wd_index(dt.weekday()) == weekday_index(y, m, d));
    kani::cover!(y < 0 && dt.weekday() == Weekday::Sun);
    kani::cover!(y == 1 && m == 1 && d == 1 && dt.weekday() == Weekday::Mon);
}

// @ob tier=quick timeout=900
// @desc succ_opt is the next civil day (month and year rollover) with the next weekday, None exactly at MAX; pred_opt is its inverse, None exactly at MIN; derived order has d < succ(d)
// @bounds all dates
// @funcs NaiveDate::succ_opt, pred_opt, Ord for NaiveDate, MIN, MAX
#[kani::proof]
fn c01_succ_pred() {
    let dt = any_date();
    let (y, m, d) = (dt.year(), dt.month(), dt.day());
    kani::assume(valid_ymd(y, m, d));
    match dt.succ_opt() {
        Some(s) => {
            let (ey, em, ed) = if d < days_in_month(y, m) {
                (y, m, d + 1)
            } else if m < 12 {
                (y, m + 1, 1)
            } else {
                (y + 1, 1, 1)
            };
            assert!(s.year() == ey && s.month() == em && s.day() == ed);
            assert!(s.weekday() == dt.weekday().succ());
            assert!(dt < s && s > dt && dt != s);
            assert!(s.pred_opt() == Some(dt));
            kani::cover!(m == 12 && d == 31);
            kani::cover!(m == 2 && d == 28 && is_leap(y));
        }
        None => assert!(dt == NaiveDate::MAX && y == MAX_YEAR && m == 12 && d == 31),
    }
    match dt.pred_opt() {
        Some(p) => {
            assert!(p.succ_opt() == Some(dt));
            assert!(p < dt);
        }
        None => assert!(dt == NaiveDate::MIN && y == MIN_YEAR && m == 1 && d == 1),
    }
    kani::cover!(dt.succ_opt().is_none());
    kani::cover!(dt.pred_opt().is_none());
}

// @ob tier=quick timeout=1200
// @desc iso_week() of every date is the (year, week) of that week's Thursday (week 1 contains 4 January); week0 = week-1; week <= 52/53 by the ISO long-year rule
// @bounds all dates
// @funcs Datelike::iso_week, IsoWeek::from_yof, IsoWeek::{year, week, week0}, YearFlags::isoweek_delta, nisoweeks
#[kani::proof]
fn c01_isoweek_char() {
    let dt = any_date();
    let (y, o) = (dt.year(), dt.ordinal());
    kani::assume(valid_yo(y, o));
    let w = dt.iso_week();
    let (ry, rw) = iso_year_week(y, o);
    assert!(w.year() == ry && w.week() == rw && w.week0() == rw - 1);
    assert!(rw >= 1 && rw <= iso_weeks_in_year(ry));
    kani::cover!(ry == y - 1);
    kani::cover!(ry == y + 1);
    kani::cover!(rw == 53 && ry == y);
}

// @ob tier=quick timeout=1200
// @desc from_isoywd_opt returns Some exactly when 1 <= week <= weeks(ISO year) and the denoted day is in range; the result's ISO year/week/weekday equal the arguments; never panics for any i32 year
// @bounds all i32 years x all u32 weeks x 7 weekdays
// @funcs NaiveDate::from_isoywd_opt, YearFlags::{from_year, nisoweeks, isoweek_delta, ndays}, from_ordinal_and_flags
#[kani::proof]
fn c01_isoywd_valid_iff() {
    let (y, w): (i32, u32) = (kani::any(), kani::any());
    let wd = any_weekday();
    let r = NaiveDate::from_isoywd_opt(y, w, wd);
    match r {
        Some(dt) => {
            let iw = dt.iso_week();
            assert!(iw.year() == y && iw.week() == w && dt.weekday() == wd);
            assert!(y >= MIN_YEAR - 1 && y <= MAX_YEAR + 1);
            assert!(w >= 1 && w <= iso_weeks_in_year(y));
            kani::cover!(dt.year() == y - 1);
            kani::cover!(dt.year() == y + 1);
            kani::cover!(w == 53);
        }
        None => {
            // either not a week of that ISO year, or the denoted day lies outside the supported range
            let in_weeks = y >= MIN_YEAR - 1 && y <= MAX_YEAR + 1 && w >= 1 && w <= iso_weeks_in_year(y);
            if in_weeks {
                // the Monday-based day offset from 4 January's week: the day is representable iff its civil year is in range
                let jan4 = weekday_index(y, 1, 4) as i64; // Mon=0
                let ord = (w as i64 - 1) * 7 + wd_index(wd) as i64 - jan4 + 4; // ordinal relative to year y (can be <1 or >ndays)
                let civil_year = if ord < 1 { y as i64 - 1 } else if ord > days_in_year(y) as i64 { y as i64 + 1 } else { y as i64 };
                assert!(civil_year < MIN_YEAR as i64 || civil_year > MAX_YEAR as i64);
            }
            kani::cover!(in_weeks);
            kani::cover!(w == 53 && year_in_range(y));
        }
    }
}

// @ob tier=quick timeout=600
// @desc derived Eq/Ord on dates is the lexicographic order of (year, ordinal); ISO weeks compare in the same chronological order (d1 <= d2 implies iso_week(d1) <= iso_week(d2)); equal dates have equal fields
// @bounds all pairs of dates
// @funcs PartialOrd/Ord/PartialEq for NaiveDate (packed yof word), PartialOrd for IsoWeek
#[kani::proof]
fn c01_ord_lex() {
    let a = any_date();
    let b = any_date();
    let ka = (a.year(), a.ordinal());
    let kb = (b.year(), b.ordinal());
    assert!((a < b) == (ka < kb));
    assert!((a == b) == (ka == kb));
    assert!((a <= b) == (ka <= kb));
    assert!(a.cmp(&b) == ka.cmp(&kb));
    if a <= b {
        assert!(a.iso_week() <= b.iso_week());
    }
    kani::cover!(a < b && a.year() == b.year());
    kani::cover!(a > b && a.year() < 0 && b.year() < 0);
}

// @ob tier=thorough timeout=1800
// @desc Kani instance of the day-number correspondence restricted to one 400-year era (the full i32 domain is decided by Engine M): from_num_days_from_ce_opt(n) has (year, ordinal) with reference day number n, and num_days_from_ce gives n back
// @bounds day numbers 1..=146097 (years 1..=400); full range is outside this obligation (see M:c01_daynum_*)
// @funcs NaiveDate::from_num_days_from_ce_opt, cycle_to_yo, YEAR_DELTAS, Datelike::num_days_from_ce, NaiveDate::num_days_from_ce
#[kani::proof]
#[kani::unwind(13)]
fn c01_daynum_one_era() {
    let n: i32 = kani::any();
    kani::assume(n >= 1 && n <= 146097);
    let dt = NaiveDate::from_num_days_from_ce_opt(n).unwrap();
    let (y, m, d) = (dt.year(), dt.month(), dt.day());
    kani::assume(valid_ymd(y, m, d));
    assert!(days_from_ce(y, m, d) == n as i64);
    assert!(dt.num_days_from_ce() == n);
    kani::cover!(y == 400 && m == 12 && d == 31);
}

// @ob tier=quick timeout=1200
// @desc end-to-end: from_isoywd_opt(iso_week(d).year, iso_week(d).week, weekday(d)) == Some(d) for every date (the ISO week-date form denotes the date it was read from)
// @bounds all dates
// @funcs Datelike::iso_week, NaiveDate::from_isoywd_opt, weekday
#[kani::proof]
fn c01_isoywd_roundtrip() {
    let dt = any_date();
    let w = dt.iso_week();
    assert!(NaiveDate::from_isoywd_opt(w.year(), w.week(), dt.weekday()) == Some(dt));
    kani::cover!(w.year() != dt.year());
}

// @ob tier=quick timeout=1200
// @desc Kani instance of "num_days_from_ce (trait default and from_num_days_from_ce_opt inverse) = Hinnant day count" on the windows where branch structure changes: the lowest and highest supported years and the eras around year 0 (full i32 domain: Engine M)
// @bounds years [-262143,-261744] u [-800,800] u [261743,262142], all months/days; other years are outside this obligation
// @funcs Datelike::num_days_from_ce (traits.rs default body), NaiveDate::from_num_days_from_ce_opt
#[kani::proof]
fn c01_daynum_windows() {
    let (y, m, d): (i32, u32, u32) = (kani::any(), kani::any(), kani::any());
    kani::assume((y >= MIN_YEAR && y < MIN_YEAR + 400) || (y >= -800 && y <= 800) || (y > MAX_YEAR - 400 && y <= MAX_YEAR));
    let dt = NaiveDate::from_ymd_opt(y, m, d);
    kani::assume(dt.is_some());
    let dt = dt.unwrap();
    kani::assume(valid_ymd(y, m, d));
    let n = dt.num_days_from_ce();
    assert!(n as i64 == days_from_ce(y, m, d));
    assert!(NaiveDate::from_num_days_from_ce_opt(n) == Some(dt));
    kani::cover!(y == MIN_YEAR);
    kani::cover!(y == MAX_YEAR);
    kani::cover!(y == 0);
}
