//! C04 — zone-aware date-times: one instant, many wall clocks (DateTime<FixedOffset>).
use crate::refcal::*;
use crate::util::*;
use chrono::offset::LocalResult;
use chrono::{DateTime, Datelike, FixedOffset, NaiveDate, NaiveDateTime, NaiveTime, TimeZone, Timelike, Utc};
use core::hash::{Hash, Hasher};

/// records everything that is fed to it (order-sensitive), so "equal hashes" = "same bytes hashed"
struct Rec {
    acc: u64,
    n: u32,
}
impl Hasher for Rec {
    fn finish(&self) -> u64 {
        self.acc ^ ((self.n as u64) << 56)
    }
    fn write(&mut self, bytes: &[u8]) {
        let mut i = 0;
        while i < bytes.len() {
            self.acc = self.acc.rotate_left(9) ^ bytes[i] as u64;
            self.n += 1;
            i += 1;
        }
    }
}
fn rec_hash<T: Hash>(t: &T) -> u64 {
    let mut h = Rec { acc: 0, n: 0 };
    t.hash(&mut h);
    h.finish()
}

#[cfg(kani)]
fn any_offset_secs() -> (FixedOffset, i32) {
    let s: i32 = kani::any();
    let o = FixedOffset::east_opt(s);
    kani::assume(o.is_some());
    (o.unwrap(), s)
}

// @ob tier=quick timeout=600
// @desc FixedOffset::east_opt / west_opt accept exactly offsets strictly inside (-86400, 86400) s; local_minus_utc / utc_minus_local return the sign-correct value
// @bounds all i32 arguments
// @funcs FixedOffset::{east_opt, west_opt, local_minus_utc, utc_minus_local}
#[kani::proof]
fn c04_offset_range() {
    let s: i32 = kani::any();
    match FixedOffset::east_opt(s) {
        Some(o) => assert!(s > -86_400 && s < 86_400 && o.local_minus_utc() == s && o.utc_minus_local() == -s),
        None => assert!(s <= -86_400 || s >= 86_400),
    }
    match FixedOffset::west_opt(s) {
        Some(o) => assert!(s > -86_400 && s < 86_400 && o.local_minus_utc() == -s && o.utc_minus_local() == s),
        None => assert!(s <= -86_400 || s >= 86_400),
    }
    kani::cover!(FixedOffset::west_opt(s).is_some() && s < 0);
    kani::cover!(FixedOffset::east_opt(s).is_none() && s == i32::MIN);
}

// @ob tier=quick timeout=1200
// @desc from_local_datetime(l) is Single(dt) with dt.naive_local() == l (identity), and None only when l - offset would leave the supported range (first/last day only); from_utc_datetime(u).naive_utc() == u for every u and offset
// @bounds all naive date-times (incl. leap-second representations) x all offsets at one-second resolution
// @funcs TimeZone::{from_local_datetime, from_utc_datetime, offset_from_local_datetime} for FixedOffset, NaiveDateTime::{checked_sub_offset, checked_add_offset, overflowing_add_offset}, DateTime::{naive_local, naive_utc, offset}
#[kani::proof]
fn c04_local_utc_identity() {
    let l = any_datetime();
    let (off, s) = any_offset_secs();
    let secs = l.time().num_seconds_from_midnight() as i32;
    match off.from_local_datetime(&l) {
        LocalResult::Single(dt) => {
            assert!(dt.naive_local() == l);
            assert!(dt.offset().local_minus_utc() == s);
            // the stored UTC reading is in range
            // (a leap-second value on the last second of NaiveDate::MAX is a valid NaiveDateTime that orders after
            // NaiveDateTime::MAX, so the range is stated on the date)
            assert!(dt.naive_utc().date() >= NaiveDate::MIN && dt.naive_utc().date() <= NaiveDate::MAX);
            kani::cover!(dt.naive_utc().date() != l.date());
        }
        LocalResult::None => {
            // only possible when subtracting the offset crosses the first or last representable day
            assert!((l.date() == NaiveDate::MIN && secs - s < 0) || (l.date() == NaiveDate::MAX && secs - s >= 86_400));
        }
        LocalResult::Ambiguous(_, _) => assert!(false),
    }
    let u = l;
    let dt = off.from_utc_datetime(&u);
    assert!(dt.naive_utc() == u && dt.offset().local_minus_utc() == s);
    kani::cover!(matches!(off.from_local_datetime(&l), LocalResult::None) && s > 0);
    kani::cover!(matches!(off.from_local_datetime(&l), LocalResult::None) && s < 0);
    kani::cover!(l.time().nanosecond() >= 1_000_000_000);
}

// @ob tier=quick timeout=1200
// @desc ==, <, cmp and Hash of zone-aware date-times depend only on the instant (UTC reading), never on the offsets; with_timezone / fixed_offset / to_utc keep the instant
// @bounds all pairs of UTC date-times x all pairs of offsets
// @funcs PartialEq/PartialOrd/Ord/Hash for DateTime<Tz>, DateTime::{with_timezone, fixed_offset, to_utc, naive_utc}
#[kani::proof]
#[kani::unwind(20)]
fn c04_eq_ord_hash_instant() {
    let (u1, u2) = (any_datetime(), any_datetime());
    let (o1, _) = any_offset_secs();
    let (o2, s2) = any_offset_secs();
    let a = o1.from_utc_datetime(&u1);
    let b = o2.from_utc_datetime(&u2);
    assert!((a == b) == (u1 == u2));
    assert!((a < b) == (u1 < u2));
    assert!(a.cmp(&b) == u1.cmp(&u2));
    assert!(a.partial_cmp(&b) == u1.partial_cmp(&u2));
    if u1 == u2 {
        assert!(rec_hash(&a) == rec_hash(&b));
    }
    let c = a.with_timezone(&o2);
    assert!(c.naive_utc() == u1 && c.offset().local_minus_utc() == s2 && c == a);
    assert!(a.fixed_offset().naive_utc() == u1 && a.to_utc().naive_utc() == u1);
    assert!(a.with_timezone(&Utc).naive_utc() == u1);
    kani::cover!(u1 == u2 && o1 != o2);
    kani::cover!(u1 < u2);
}

// @ob tier=quick timeout=1800
// @desc Datelike/Timelike getters of a DateTime<FixedOffset> are those of the wall clock = UTC reading + offset, computed by an independent reference (second-of-day sum, day rollover by the calendar successor/predecessor), including the one-day headroom beyond MIN/MAX at the range ends; the leap fraction is preserved
// @bounds all UTC date-times x all offsets
// @funcs Datelike/Timelike for DateTime<Tz>, DateTime::overflowing_naive_local, NaiveDateTime::overflowing_add_offset, NaiveTime::overflowing_add_offset, NaiveDate::{BEFORE_MIN, AFTER_MAX}
#[kani::proof]
fn c04_wall_clock_getters() {
    let u = any_datetime();
    let (off, s) = any_offset_secs();
    let dt = off.from_utc_datetime(&u);
    let (y, m, d) = (u.date().year(), u.date().month(), u.date().day());
    kani::assume(valid_ymd(y, m, d));
    let sod = u.time().num_seconds_from_midnight() as i32 + s;
    let (roll, wsec) = if sod < 0 { (-1, sod + 86_400) } else if sod >= 86_400 { (1, sod - 86_400) } else { (0, sod) };
    let (ey, em, ed) = if roll == 1 {
        if d < days_in_month(y, m) { (y, m, d + 1) } else if m < 12 { (y, m + 1, 1) } else { (y + 1, 1, 1) }
    } else if roll == -1 {
        if d > 1 { (y, m, d - 1) } else if m > 1 { (y, m - 1, days_in_month(y, m - 1)) } else { (y - 1, 12, 31) }
    } else {
        (y, m, d)
    };
    assert!(dt.year() == ey && dt.month() == em && dt.day() == ed);
    assert!(dt.month0() == em - 1 && dt.day0() == ed - 1);
    assert!(dt.ordinal() == ordinal_of(ey, em, ed));
    assert!(wd_index(dt.weekday()) as i32 == (wd_index(u.date().weekday()) as i32 + 7 + roll) % 7);
    assert!(dt.hour() == wsec as u32 / 3600 && dt.minute() == wsec as u32 / 60 % 60 && dt.second() == wsec as u32 % 60);
    assert!(dt.nanosecond() == u.time().nanosecond());
    kani::cover!(ey == MAX_YEAR + 1);
    kani::cover!(ey == MIN_YEAR - 1);
    kani::cover!(roll == 1 && em == 3 && ed == 1);
}
