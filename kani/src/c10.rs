//! C10 — RFC 3339 output is conformant (writer side) and parses back (bounded reader instances).
use crate::refcal::*;
use crate::util::*;
use chrono::{DateTime, Datelike, FixedOffset, NaiveDate, NaiveDateTime, NaiveTime, SecondsFormat, TimeZone, Timelike, Utc};
use core::fmt::Write;

fn dig(b: u8) -> bool {
    b >= b'0' && b <= b'9'
}
fn two(b: &[u8], i: usize) -> u32 {
    ((b[i] - b'0') * 10 + (b[i + 1] - b'0')) as u32
}

// @ob tier=extra timeout=7200 mem=24
// @desc RFC 3339 rendering (the real write_rfc3339, reached through the public `Fixed::RFC3339` item into a fixed buffer): for every date-time with wall-clock year 0..=9999 and every whole-minute offset the text is `YYYY-MM-DDTHH:MM:SS[.fff[fff[fff]]]+HH:MM`; every position is in the grammar's character class, the fields are the wall-clock fields (second 60 for a leap second), the fraction is the shortest of 0/3/6/9 digits that loses nothing (truncated never rounded), sign/hours/minutes of the offset are exact
// @bounds wall-clock years 0..=9999, all times incl. leap fraction on second 59, whole-minute offsets in (-24h, 24h); output <= 35 bytes (unwind 12 for the fraction digits)
// @funcs write_rfc3339 (via Fixed::RFC3339 item), OffsetFormat::format, write_hundreds, DelayedFormat::format_fixed
#[kani::proof]
#[kani::unwind(12)]
fn c10_writer_shape() {
    use chrono::format::{Fixed, Item};
    let d = any_date();
    let (y, m, dd) = (d.year(), d.month(), d.day());
    kani::assume(y >= 0 && y <= 9999 && valid_ymd(y, m, dd));
    let secs: u32 = kani::any();
    let frac: u32 = kani::any();
    kani::assume(secs < 86_400 && (frac < 1_000_000_000 || (frac < 2_000_000_000 && secs % 60 == 59)));
    let t = NaiveTime::from_num_seconds_from_midnight_opt(secs, frac).unwrap();
    let mins: i32 = kani::any();
    kani::assume(mins > -1440 && mins < 1440);
    let off = FixedOffset::east_opt(mins * 60).unwrap();
    // the writer is handed the WALL CLOCK reading and the offset (the property is stated on the wall clock)
    let buf: Buf<36> = render_wall(d, t, off, &[Item::Fixed(Fixed::RFC3339)]);
    let b = &buf.b;
    // date and time skeleton
    assert!(dig(b[0]) && dig(b[1]) && dig(b[2]) && dig(b[3]) && b[4] == b'-' && dig(b[5]) && dig(b[6]) && b[7] == b'-' && dig(b[8]) && dig(b[9]));
    assert!(b[10] == b'T' && dig(b[11]) && dig(b[12]) && b[13] == b':' && dig(b[14]) && dig(b[15]) && b[16] == b':' && dig(b[17]) && dig(b[18]));
    assert!(two(b, 0) * 100 + two(b, 2) == y as u32 && two(b, 5) == m && two(b, 8) == dd);
    let leap = frac >= 1_000_000_000;
    assert!(two(b, 11) == secs / 3600 && two(b, 14) == secs / 60 % 60 && two(b, 17) == secs % 60 + if leap { 1 } else { 0 });
    // fraction: shortest of 0/3/6/9 digits
    let ns = frac % 1_000_000_000;
    let nd: usize = if ns == 0 { 0 } else if ns % 1_000_000 == 0 { 3 } else if ns % 1000 == 0 { 6 } else { 9 };
    let mut p = 19;
    if nd > 0 {
        assert!(b[19] == b'.');
        let mut v: u32 = 0;
        let mut i = 0;
        while i < 9 {
            if i < nd {
                assert!(dig(b[20 + i]));
                v = v * 10 + (b[20 + i] - b'0') as u32;
            }
            i += 1;
        }
        let scale = if nd == 3 { 1_000_000 } else if nd == 6 { 1000 } else { 1 };
        assert!(v * scale == ns);
        p = 20 + nd;
    }
    // offset
    let a = if mins < 0 { -mins } else { mins } as u32;
    assert!(b[p] == if mins < 0 { b'-' } else { b'+' } && b[p + 3] == b':' && two(b, p + 1) == a / 60 && two(b, p + 4) == a % 60);
    assert!(buf.len == p + 6);
    kani::cover!(leap);
    kani::cover!(nd == 6);
    kani::cover!(mins == 0);
}

fn render(d: NaiveDate, t: NaiveTime, off: FixedOffset) -> Buf<36> {
    use chrono::format::{Fixed, Item};
    render_wall(d, t, off, &[Item::Fixed(Fixed::RFC3339)])
}

// @ob tier=quick timeout=900 mem=8
// @desc RFC 3339 writer, date part: for every wall-clock date with year 0..=9999 (time fixed to 12:34:56, offset +00:00) the text starts with YYYY-MM-DD in zero-padded digits equal to the date's fields, followed by T12:34:56+00:00
// @bounds all dates with year 0..=9999; time of day and offset concrete (the writer emits date, time and offset independently of each other)
// @funcs write_rfc3339 (date part), write_hundreds
// @outside time / fraction / offset rendering: c10_writer_time_part; years outside 0..=9999
#[kani::proof]
#[kani::unwind(12)]
fn c10_writer_date_part() {
    let d = any_date();
    let (y, m, dd) = (d.year(), d.month(), d.day());
    kani::assume(y >= 0 && y <= 9999 && valid_ymd(y, m, dd));
    let buf = render(d, NaiveTime::from_hms_opt(12, 34, 56).unwrap(), FixedOffset::east_opt(0).unwrap());
    let b = &buf.b;
    assert!(dig(b[0]) && dig(b[1]) && dig(b[2]) && dig(b[3]) && b[4] == b'-' && dig(b[5]) && dig(b[6]) && b[7] == b'-' && dig(b[8]) && dig(b[9]));
    assert!(two(b, 0) * 100 + two(b, 2) == y as u32 && two(b, 5) == m && two(b, 8) == dd);
    assert!(buf.len == 25 && b[10] == b'T' && b[11] == b'1' && b[12] == b'2' && b[13] == b':' && b[19] == b'+' && b[22] == b':');
    kani::cover!(y == 0);
    kani::cover!(m == 2 && dd == 29);
}

// The time / fraction / offset part is decided by separate harnesses for the clock digits, the leap second, each
// fraction class and the offset: a single harness over all of them did not finish within the quick cap (AutoSi picks
// 0/3/6/9 digits by three remainder tests and prints through core::fmt's zero padding; with the fraction symbolic all of
// that stays in the formula even when only the clock digits are asserted). The writer computes the clock digits, the
// leap adjustment (`sec += 1; nano -= 10^9`) and the fraction text one after the other from separate inputs.
// @ob tier=quick timeout=900 mem=14
// @desc RFC 3339 writer, clock digits: on the fixed wall-clock date 2001-07-08 at +00:00, for every whole second of the day the text is 2001-07-08THH:MM:SS+00:00 with zero-padded hour, minute and second, and no fraction
// @bounds all 86400 seconds of the day, fraction 0 (concrete); date and offset concrete
// @funcs write_rfc3339 (time), NaiveTime::hms, write_hundreds
#[kani::proof]
#[kani::unwind(12)]
fn c10_writer_time_hms() {
    let secs: u32 = kani::any();
    kani::assume(secs < 86_400);
    let t = NaiveTime::from_num_seconds_from_midnight_opt(secs, 0).unwrap();
    let buf = render(NaiveDate::from_ymd_opt(2001, 7, 8).unwrap(), t, FixedOffset::east_opt(0).unwrap());
    let b = &buf.b;
    assert!(buf.len == 25 && b[0] == b'2' && b[3] == b'1' && b[5] == b'0' && b[6] == b'7' && b[8] == b'0' && b[9] == b'8' && b[10] == b'T');
    assert!(dig(b[11]) && dig(b[12]) && b[13] == b':' && dig(b[14]) && dig(b[15]) && b[16] == b':' && dig(b[17]) && dig(b[18]));
    assert!(two(b, 11) == secs / 3600 && two(b, 14) == secs / 60 % 60 && two(b, 17) == secs % 60);
    assert!(b[19] == b'+' && b[20] == b'0' && b[21] == b'0' && b[22] == b':' && b[23] == b'0' && b[24] == b'0');
    kani::cover!(secs == 0);
    kani::cover!(secs == 86_399);
}

// @ob tier=thorough timeout=3600 mem=14
// @desc RFC 3339 writer, leap second: a time in the leap representation (second 59 with fraction 10^9 + f) prints second 60 and the fraction f, for every minute of the day and f = 0 or 500 ms
// @bounds all 1440 minutes x f in {0, 500_000_000}; date and offset concrete
// @funcs write_rfc3339 (leap adjustment)
#[kani::proof]
#[kani::unwind(12)]
fn c10_writer_time_leap() {
    let m: u32 = kani::any();
    kani::assume(m < 1440);
    let half: bool = kani::any();
    let t = NaiveTime::from_num_seconds_from_midnight_opt(m * 60 + 59, 1_000_000_000 + if half { 500_000_000 } else { 0 }).unwrap();
    let buf = render(NaiveDate::from_ymd_opt(2001, 7, 8).unwrap(), t, FixedOffset::east_opt(0).unwrap());
    let b = &buf.b;
    assert!(two(b, 11) == m / 60 && two(b, 14) == m % 60 && b[17] == b'6' && b[18] == b'0');
    if half {
        assert!(buf.len == 29 && b[19] == b'.' && b[20] == b'5' && b[21] == b'0' && b[22] == b'0' && b[23] == b'+');
    } else {
        assert!(buf.len == 25 && b[19] == b'+');
    }
    kani::cover!(half);
    kani::cover!(m == 1439);
}

fn frac_check(nd: usize) {
    let k: u32 = kani::any();
    let ns: u32 = match nd {
        3 => {
            kani::assume(k >= 1 && k <= 999);
            k * 1_000_000
        }
        6 => {
            kani::assume(k >= 1 && k <= 999_999 && k % 1000 != 0);
            k * 1000
        }
        _ => {
            kani::assume(k >= 1 && k <= 999_999_999 && k % 1000 != 0);
            k
        }
    };
    let t = NaiveTime::from_hms_nano_opt(12, 34, 56, ns).unwrap();
    let buf = render(NaiveDate::from_ymd_opt(2001, 7, 8).unwrap(), t, FixedOffset::east_opt(0).unwrap());
    let b = &buf.b;
    assert!(b[10] == b'T' && b[11] == b'1' && b[12] == b'2' && b[17] == b'5' && b[18] == b'6' && b[19] == b'.');
    let mut v: u32 = 0;
    let mut i = 0;
    while i < 9 {
        if i < nd {
            assert!(dig(b[20 + i]));
            v = v * 10 + (b[20 + i] - b'0') as u32;
        }
        i += 1;
    }
    assert!(v == k);
    let p = 20 + nd;
    assert!(b[p] == b'+' && b[p + 1] == b'0' && b[p + 2] == b'0' && b[p + 3] == b':' && b[p + 4] == b'0' && b[p + 5] == b'0');
    assert!(buf.len == p + 6);
    kani::cover!(k == 1);
}

// @ob tier=thorough timeout=3600 mem=14
// @desc RFC 3339 writer, millisecond fractions: at the fixed wall clock 2001-07-08T12:34:56+00:00, for every fraction that is a whole number of milliseconds (1..=999 ms) the text carries exactly three fraction digits equal to it (never rounded, never shortened further)
// @bounds all 999 non-zero whole-millisecond fractions; date, clock time and offset concrete
// @funcs write_rfc3339 (SecondsFormat::AutoSi fraction), core::fmt zero padding
#[kani::proof]
#[kani::unwind(12)]
fn c10_writer_frac_millis() {
    frac_check(3)
}

// @ob tier=extra timeout=5400 mem=20
// @desc RFC 3339 writer, microsecond fractions: every fraction that is a whole number of microseconds but not of milliseconds prints exactly six digits equal to it
// @bounds all such fractions; date, clock time and offset concrete (did not finish within the 900 s quick cap: core::fmt's decimal conversion of a 20-bit symbolic value with zero padding)
// @funcs write_rfc3339 (SecondsFormat::AutoSi fraction), core::fmt zero padding
#[kani::proof]
#[kani::unwind(12)]
fn c10_writer_frac_micros() {
    frac_check(6)
}

// @ob tier=extra timeout=5400 mem=20
// @desc RFC 3339 writer, nanosecond fractions: every fraction that is not a whole number of microseconds prints exactly nine digits equal to it
// @bounds all such fractions; date, clock time and offset concrete (did not finish within the 900 s quick cap)
// @funcs write_rfc3339 (SecondsFormat::AutoSi fraction), core::fmt zero padding
#[kani::proof]
#[kani::unwind(12)]
fn c10_writer_frac_nanos() {
    frac_check(9)
}

// @ob tier=quick timeout=900 mem=8
// @desc RFC 3339 writer, offset part: on the fixed wall clock 2001-07-08T12:34:56, for every whole-minute offset the text ends with +HH:MM / -HH:MM with exact hours and minutes (never `Z`, which only to_rfc3339_opts(.., true) may print)
// @bounds all whole-minute offsets in (-24h, 24h); date and time concrete
// @funcs write_rfc3339 (offset), OffsetFormat::format
#[kani::proof]
#[kani::unwind(12)]
fn c10_writer_offset_part() {
    let mins: i32 = kani::any();
    kani::assume(mins > -1440 && mins < 1440);
    let off = FixedOffset::east_opt(mins * 60).unwrap();
    let buf = render(NaiveDate::from_ymd_opt(2001, 7, 8).unwrap(), NaiveTime::from_hms_opt(12, 34, 56).unwrap(), off);
    let b = &buf.b;
    assert!(buf.len == 25 && b[10] == b'T' && b[11] == b'1' && b[12] == b'2' && b[17] == b'5' && b[18] == b'6');
    let a = if mins < 0 { -mins } else { mins } as u32;
    assert!(b[19] == if mins < 0 { b'-' } else { b'+' } && dig(b[20]) && dig(b[21]) && b[22] == b':' && dig(b[23]) && dig(b[24]));
    assert!(two(b, 20) == a / 60 && two(b, 23) == a % 60);
    kani::cover!(mins == 0);
    kani::cover!(mins < 0);
}
