//! C10 — RFC 3339 output is conformant (writer side) and parses back (bounded reader instances).
use crate::refcal::*;
use crate::util::*;
use chrono::{DateTime, Datelike, FixedOffset, NaiveDate, NaiveDateTime, NaiveTime, SecondsFormat, TimeZone, Timelike, Utc};
use core::fmt::Write;

fn dig(b: u8) -> bool {
    b >= b'0' && b <= b'9'
}
fn two(b: &[u8], i: usize) -> u32 {
    ((b[i] - b'0') * 10 + (b[i + 1] - b'0')) as u32
}

// @ob tier=quick timeout=2400 mem=14
// @desc RFC 3339 rendering (the real write_rfc3339, reached through the public `Fixed::RFC3339` item into a fixed buffer): for every date-time with wall-clock year 0..=9999 and every whole-minute offset the text is `YYYY-MM-DDTHH:MM:SS[.fff[fff[fff]]]+HH:MM`; every position is in the grammar's character class, the fields are the wall-clock fields (second 60 for a leap second), the fraction is the shortest of 0/3/6/9 digits that loses nothing (truncated never rounded), sign/hours/minutes of the offset are exact
// @bounds wall-clock years 0..=9999, all times incl. leap fraction on second 59, whole-minute offsets in (-24h, 24h); output <= 35 bytes (unwind 12 for the fraction digits)
// @funcs write_rfc3339 (via Fixed::RFC3339 item), OffsetFormat::format, write_hundreds, DelayedFormat::format_fixed
#[kani::proof]
#[kani::unwind(12)]
fn c10_writer_shape() {
    use chrono::format::{Fixed, Item};
    let d = any_date();
    let (y, m, dd) = (d.year(), d.month(), d.day());
    kani::assume(y >= 0 && y <= 9999 && valid_ymd(y, m, dd));
    let secs: u32 = kani::any();
    let frac: u32 = kani::any();
    kani::assume(secs < 86_400 && (frac < 1_000_000_000 || (frac < 2_000_000_000 && secs % 60 == 59)));
    let t = NaiveTime::from_num_seconds_from_midnight_opt(secs, frac).unwrap();
    let mins: i32 = kani::any();
    kani::assume(mins > -1440 && mins < 1440);
    let off = FixedOffset::east_opt(mins * 60).unwrap();
    // build the value from its WALL CLOCK reading (the property is stated on the wall clock)
    let dt = match off.from_local_datetime(&d.and_time(t)) {
        chrono::offset::LocalResult::Single(x) => x,
        _ => return,
    };
    let items = [Item::Fixed(Fixed::RFC3339)];
    let mut buf = Buf::<36>::new();
    assert!(dt.format_with_items(items.iter()).write_to(&mut buf).is_ok() && !buf.overflow);
    let b = &buf.b;
    // date and time skeleton
    assert!(dig(b[0]) && dig(b[1]) && dig(b[2]) && dig(b[3]) && b[4] == b'-' && dig(b[5]) && dig(b[6]) && b[7] == b'-' && dig(b[8]) && dig(b[9]));
    assert!(b[10] == b'T' && dig(b[11]) && dig(b[12]) && b[13] == b':' && dig(b[14]) && dig(b[15]) && b[16] == b':' && dig(b[17]) && dig(b[18]));
    assert!(two(b, 0) * 100 + two(b, 2) == y as u32 && two(b, 5) == m && two(b, 8) == dd);
    let leap = frac >= 1_000_000_000;
    assert!(two(b, 11) == secs / 3600 && two(b, 14) == secs / 60 % 60 && two(b, 17) == secs % 60 + if leap { 1 } else { 0 });
    // fraction: shortest of 0/3/6/9 digits
    let ns = frac % 1_000_000_000;
    let nd: usize = if ns == 0 { 0 } else if ns % 1_000_000 == 0 { 3 } else if ns % 1000 == 0 { 6 } else { 9 };
    let mut p = 19;
    if nd > 0 {
        assert!(b[19] == b'.');
        let mut v: u32 = 0;
        let mut i = 0;
        while i < 9 {
            if i < nd {
                assert!(dig(b[20 + i]));
                v = v * 10 + (b[20 + i] - b'0') as u32;
            }
            i += 1;
        }
        let scale = if nd == 3 { 1_000_000 } else if nd == 6 { 1000 } else { 1 };
        assert!(v * scale == ns);
        p = 20 + nd;
    }
    // offset
    let a = if mins < 0 { -mins } else { mins } as u32;
    assert!(b[p] == if mins < 0 { b'-' } else { b'+' } && b[p + 3] == b':' && two(b, p + 1) == a / 60 && two(b, p + 4) == a % 60);
    assert!(buf.len == p + 6);
    kani::cover!(leap);
    kani::cover!(nd == 6);
    kani::cover!(mins == 0);
}
