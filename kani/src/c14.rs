//! C14 — field resolution never returns a value that contradicts a supplied field.
use crate::refcal::*;
use crate::util::*;
use chrono::format::{Parsed, ParseErrorKind};
use chrono::{Datelike, NaiveDate, NaiveTime, Timelike, Weekday};

#[cfg(kani)]
fn opt_i32() -> Option<i32> {
    if kani::any() { Some(kani::any()) } else { None }
}
#[cfg(kani)]
fn opt_u32() -> Option<u32> {
    if kani::any() { Some(kani::any()) } else { None }
}
#[cfg(kani)]
fn opt_wd() -> Option<Weekday> {
    if kani::any() { Some(any_weekday()) } else { None }
}

/// week number with weeks starting on `start` (0 = before the first such day), from (ordinal, weekday index from Monday)
fn ref_week_from(ordinal: u32, wd: u32, start: u32) -> u32 {
    let since = (wd + 7 - start) % 7; // days since the most recent `start` day
    if ordinal > since { (ordinal - since - 1) / 7 + 1 } else { 0 }
}

// @ob tier=extra timeout=7200 mem=16
// @desc to_naive_date over ALL subsets of the 14 date fields with arbitrary values: a successful result agrees with every supplied field (year, century, two-digit year, ISO year and its parts, quarter, month, both week numberings, ISO week, weekday, ordinal, day) as computed by the independent reference calendar
// @bounds every Option field symbolic (presence and full-width value): 2^14 subsets x all values; reference month scan unwound 13
// @funcs Parsed::to_naive_date (resolve_year, verify_ymd, verify_isoweekdate, verify_ordinal, resolve_week_date, quarter check), NaiveDate::weeks_from
#[kani::proof]
#[kani::unwind(13)]
fn c14_date_sound() {
    let mut p = Parsed::new();
    p.year = opt_i32();
    p.year_div_100 = opt_i32();
    p.year_mod_100 = opt_i32();
    p.isoyear = opt_i32();
    p.isoyear_div_100 = opt_i32();
    p.isoyear_mod_100 = opt_i32();
    p.quarter = opt_u32();
    p.month = opt_u32();
    p.week_from_sun = opt_u32();
    p.week_from_mon = opt_u32();
    p.isoweek = opt_u32();
    p.weekday = opt_wd();
    p.ordinal = opt_u32();
    p.day = opt_u32();
    if let Ok(d) = p.to_naive_date() {
        let (y, o) = (d.year(), d.ordinal());
        kani::assume(valid_yo(y, o)); // c01_yo_valid_iff
        let (m, dd) = md_of_ordinal(y, o);
        let wd = weekday_of_yo(y, o);
        let (iy, iw) = iso_year_week(y, o);
        if let Some(v) = p.year { assert!(v == y); }
        if let Some(v) = p.year_div_100 { assert!(y >= 0 && v == y / 100); }
        if let Some(v) = p.year_mod_100 { assert!(y >= 0 && v == y % 100); }
        if let Some(v) = p.isoyear { assert!(v == iy); }
        if let Some(v) = p.isoyear_div_100 { assert!(iy >= 0 && v == iy / 100); }
        if let Some(v) = p.isoyear_mod_100 { assert!(iy >= 0 && v == iy % 100); }
        if let Some(v) = p.quarter { assert!(v == (m - 1) / 3 + 1); }
        if let Some(v) = p.month { assert!(v == m); }
        if let Some(v) = p.day { assert!(v == dd); }
        if let Some(v) = p.ordinal { assert!(v == o); }
        if let Some(v) = p.weekday { assert!(wd_index(v) == wd); }
        if let Some(v) = p.isoweek { assert!(v == iw); }
        if let Some(v) = p.week_from_sun { assert!(v == ref_week_from(o, wd, 6)); }
        if let Some(v) = p.week_from_mon { assert!(v == ref_week_from(o, wd, 0)); }
        kani::cover!(p.year.is_none() && p.isoyear.is_some());
        kani::cover!(p.week_from_sun.is_some() && p.weekday.is_some() && p.month.is_none() && p.ordinal.is_none());
        kani::cover!(p.year_mod_100.is_some() && p.year.is_none() && p.year_div_100.is_none());
        kani::cover!(p.quarter.is_some());
    }
}

// @ob tier=quick timeout=1200
// @desc to_naive_time over all subsets of the clock fields: Ok(t) agrees with every supplied field (hour_div_12, hour_mod_12, minute, second incl. 60 as leap second, nanosecond); missing hour parts or minute is NOT_ENOUGH, out-of-range values are OUT_OF_RANGE; never panics
// @bounds all 2^5 subsets x all u32 values
// @funcs Parsed::to_naive_time
#[kani::proof]
fn c14_time_sound() {
    let mut p = Parsed::new();
    p.hour_div_12 = opt_u32();
    p.hour_mod_12 = opt_u32();
    p.minute = opt_u32();
    p.second = opt_u32();
    p.nanosecond = opt_u32();
    match p.to_naive_time() {
        Ok(t) => {
            let (hd, hm, mi) = (p.hour_div_12.unwrap(), p.hour_mod_12.unwrap(), p.minute.unwrap());
            assert!(hd <= 1 && hm <= 11 && mi <= 59);
            assert!(t.hour() == hd * 12 + hm && t.minute() == mi);
            match p.second {
                Some(60) => assert!(t.second() == 59 && t.nanosecond() >= 1_000_000_000 && t.nanosecond() - 1_000_000_000 == p.nanosecond.unwrap_or(0)),
                Some(s) => assert!(s <= 59 && t.second() == s && t.nanosecond() == p.nanosecond.unwrap_or(0)),
                None => assert!(t.second() == 0 && t.nanosecond() == 0),
            }
            if let Some(n) = p.nanosecond {
                assert!(n <= 999_999_999 && p.second.is_some());
            }
            kani::cover!(p.second == Some(60));
            kani::cover!(p.second.is_none());
        }
        Err(e) => {
            let complete = p.hour_div_12.is_some() && p.hour_mod_12.is_some() && p.minute.is_some() && !(p.second.is_none() && p.nanosecond.is_some());
            let in_range = p.hour_div_12.map_or(true, |v| v <= 1) && p.hour_mod_12.map_or(true, |v| v <= 11) && p.minute.map_or(true, |v| v <= 59)
                && p.second.map_or(true, |v| v <= 60) && p.nanosecond.map_or(true, |v| v <= 999_999_999);
            assert!(!(complete && in_range));
            kani::cover!(e.kind() == ParseErrorKind::NotEnough);
            kani::cover!(e.kind() == ParseErrorKind::OutOfRange);
        }
    }
}

// @ob tier=quick timeout=1200
// @desc setters: a value is accepted exactly when it lies in the documented range of the field and the field is unset or already holds the same value (then the stored value is unchanged); out-of-range -> OUT_OF_RANGE, different value -> IMPOSSIBLE
// @bounds all i64 arguments, field previously unset or set to any accepted value
// @funcs Parsed::{set_year, set_year_div_100, set_year_mod_100, set_quarter, set_month, set_week_from_sun, set_week_from_mon, set_isoweek, set_ordinal, set_day, set_hour12, set_hour, set_minute, set_second, set_nanosecond, set_timestamp, set_offset, set_ampm, set_weekday}, set_if_consistent
#[kani::proof]
fn c14_setters() {
    let v: i64 = kani::any();
    let w: i64 = kani::any();
    macro_rules! chk {
        ($set:ident, $field:ident, $lo:expr, $hi:expr) => {{
            let mut p = Parsed::new();
            let r1 = p.$set(v);
            let in1 = v >= $lo as i64 && v <= $hi as i64;
            assert!(r1.is_ok() == in1);
            if in1 {
                assert!(p.$field.map(|x| x as i64) == Some(v));
                let r2 = p.$set(w);
                let in2 = w >= $lo as i64 && w <= $hi as i64;
                assert!(r2.is_ok() == (in2 && w == v));
                if let Err(e) = r2 {
                    assert!(e.kind() == if in2 { ParseErrorKind::Impossible } else { ParseErrorKind::OutOfRange });
                }
                assert!(p.$field.map(|x| x as i64) == Some(v));
            } else {
                assert!(r1.unwrap_err().kind() == ParseErrorKind::OutOfRange && p.$field.is_none());
            }
        }};
    }
    chk!(set_year, year, i32::MIN, i32::MAX);
    chk!(set_year_div_100, year_div_100, 0, i32::MAX);
    chk!(set_year_mod_100, year_mod_100, 0, 99);
    chk!(set_isoyear, isoyear, i32::MIN, i32::MAX);
    chk!(set_isoyear_div_100, isoyear_div_100, 0, i32::MAX);
    chk!(set_isoyear_mod_100, isoyear_mod_100, 0, 99);
    chk!(set_quarter, quarter, 1, 4);
    chk!(set_month, month, 1, 12);
    chk!(set_week_from_sun, week_from_sun, 0, 53);
    chk!(set_week_from_mon, week_from_mon, 0, 53);
    chk!(set_isoweek, isoweek, 1, 53);
    chk!(set_ordinal, ordinal, 1, 366);
    chk!(set_day, day, 1, 31);
    chk!(set_minute, minute, 0, 59);
    chk!(set_second, second, 0, 60);
    chk!(set_nanosecond, nanosecond, 0, 999_999_999);
    chk!(set_timestamp, timestamp, i64::MIN, i64::MAX);
    chk!(set_offset, offset, i32::MIN, i32::MAX);
    // hour setters
    let mut p = Parsed::new();
    let r = p.set_hour(v);
    assert!(r.is_ok() == (v >= 0 && v <= 23));
    if r.is_ok() {
        assert!(p.hour_div_12 == Some((v / 12) as u32) && p.hour_mod_12 == Some((v % 12) as u32));
        let r2 = p.set_hour12(w);
        assert!(r2.is_ok() == (w >= 1 && w <= 12 && w % 12 == v % 12));
        let am: bool = kani::any();
        assert!(p.set_ampm(am).is_ok() == (am == (v >= 12)));
    }
    let mut q = Parsed::new();
    let a = any_weekday();
    let b = any_weekday();
    assert!(q.set_weekday(a).is_ok());
    assert!(q.set_weekday(b).is_ok() == (a == b) && q.weekday == Some(a));
    kani::cover!(v == 60);
    kani::cover!(v == w && v == 12);
}

// @ob tier=quick timeout=900 mem=12
// @desc quick instance of the date-resolution soundness obligation on the calendar-date family: all subsets of {year, century, two-digit year, quarter, month, day, ordinal} with arbitrary values: a successful to_naive_date agrees with every supplied field (in particular a century/two-digit pair never resolves to a year it does not denote, also for centuries near i32::MAX)
// @bounds every Option field symbolic (presence and full-width value): 2^7 subsets x all values; the other 7 date fields absent; month scan unwound 13
// @funcs Parsed::to_naive_date (resolve_year, verify_ymd, verify_ordinal, quarter check)
#[kani::proof]
#[kani::unwind(13)]
fn c14_date_sound_ymd() {
    let mut p = Parsed::new();
    p.year = opt_i32();
    p.year_div_100 = opt_i32();
    p.year_mod_100 = opt_i32();
    p.quarter = opt_u32();
    p.month = opt_u32();
    p.ordinal = opt_u32();
    p.day = opt_u32();
    if let Ok(d) = p.to_naive_date() {
        let (y, o) = (d.year(), d.ordinal());
        kani::assume(valid_yo(y, o));
        let (m, dd) = md_of_ordinal(y, o);
        if let Some(v) = p.year { assert!(v == y); }
        if let Some(v) = p.year_div_100 { assert!(y >= 0 && v == y / 100); }
        if let Some(v) = p.year_mod_100 { assert!(y >= 0 && v == y % 100); }
        if let Some(v) = p.quarter { assert!(v == (m - 1) / 3 + 1); }
        if let Some(v) = p.month { assert!(v == m); }
        if let Some(v) = p.day { assert!(v == dd); }
        if let Some(v) = p.ordinal { assert!(v == o); }
        kani::cover!(p.year.is_none() && p.year_div_100.is_some());
        kani::cover!(p.year_mod_100.is_some() && p.year.is_none() && p.year_div_100.is_none());
        kani::cover!(p.quarter.is_some() && p.ordinal.is_some());
    }
}

/// a test zone in which EVERY wall-clock time is a fold between +02:00 (earlier instant) and +01:00 (later instant)
#[derive(Clone, Copy, Debug)]
struct FoldZone;
impl chrono::TimeZone for FoldZone {
    type Offset = chrono::FixedOffset;
    fn from_offset(_: &chrono::FixedOffset) -> Self {
        FoldZone
    }
    fn offset_from_local_date(&self, _: &NaiveDate) -> chrono::offset::LocalResult<chrono::FixedOffset> {
        chrono::offset::LocalResult::Ambiguous(chrono::FixedOffset::east_opt(7200).unwrap(), chrono::FixedOffset::east_opt(3600).unwrap())
    }
    fn offset_from_local_datetime(&self, _: &chrono::NaiveDateTime) -> chrono::offset::LocalResult<chrono::FixedOffset> {
        chrono::offset::LocalResult::Ambiguous(chrono::FixedOffset::east_opt(7200).unwrap(), chrono::FixedOffset::east_opt(3600).unwrap())
    }
    fn offset_from_utc_date(&self, _: &NaiveDate) -> chrono::FixedOffset {
        chrono::FixedOffset::east_opt(3600).unwrap()
    }
    fn offset_from_utc_datetime(&self, _: &chrono::NaiveDateTime) -> chrono::FixedOffset {
        chrono::FixedOffset::east_opt(3600).unwrap()
    }
}

// @ob tier=quick timeout=900 mem=10
// @desc resolution in a zone where the wall-clock time is ambiguous: to_datetime_with_timezone returns a value only if its offset equals the supplied offset field (never the other candidate), reports an unmatched offset as IMPOSSIBLE and a missing offset as NOT_ENOUGH
// @bounds a fixed wall-clock date-time (2021-10-31 02:30:00) in a two-offset fold zone (+02:00 / +01:00); the offset field absent or any i32
// @funcs Parsed::to_datetime_with_timezone (Ambiguous arm, check_offset), to_naive_datetime_with_offset
#[kani::proof]
fn c14_ambiguous_offset_choice() {
    let mut p = Parsed::new();
    p.year = Some(2021);
    p.month = Some(10);
    p.day = Some(31);
    p.hour_div_12 = Some(0);
    p.hour_mod_12 = Some(2);
    p.minute = Some(30);
    p.second = Some(0);
    p.offset = opt_i32();
    match p.to_datetime_with_timezone(&FoldZone) {
        Ok(dt) => {
            use chrono::Offset;
            let got = dt.offset().fix().local_minus_utc();
            assert!(p.offset == Some(got) && (got == 3600 || got == 7200));
            assert!(dt.naive_local() == NaiveDate::from_ymd_opt(2021, 10, 31).unwrap().and_hms_opt(2, 30, 0).unwrap());
        }
        Err(e) => {
            match p.offset {
                None => assert!(e.kind() == ParseErrorKind::NotEnough),
                Some(o) => assert!(o != 3600 && o != 7200 && e.kind() == ParseErrorKind::Impossible),
            }
        }
    }
    kani::cover!(p.offset == Some(7200));
    kani::cover!(p.offset.is_none());
}
