//! Shared helpers for the harnesses: symbolic values of chrono types built through the real
//! constructors, a non-allocating text sink, and the known-finding macro.
use chrono::{Month, NaiveDate, NaiveDateTime, NaiveTime, Weekday, FixedOffset};
use core::fmt;

/// `known_finding!("kf_F10", "kfonly_F10", cond)`: when the finding is listed in
/// /verif/known_findings.json the driver builds with feature `kf_<id>` and the harness excludes
/// exactly the inputs the finding describes; the witness run (`kfonly_<id>`) restricts to them.
#[macro_export]
macro_rules! known_finding {
    ($ex:literal, $only:literal, $cond:expr) => {
        #[cfg(feature = $ex)]
        kani::assume(!($cond));
        #[cfg(feature = $only)]
        kani::assume($cond);
    };
}

pub const WEEKDAYS: [Weekday; 7] =
    [Weekday::Mon, Weekday::Tue, Weekday::Wed, Weekday::Thu, Weekday::Fri, Weekday::Sat, Weekday::Sun];
pub const MONTHS: [Month; 12] = [
    Month::January, Month::February, Month::March, Month::April, Month::May, Month::June,
    Month::July, Month::August, Month::September, Month::October, Month::November, Month::December,
];

#[cfg(kani)]
pub fn any_weekday() -> Weekday {
    let i: u8 = kani::any();
    kani::assume(i < 7);
    WEEKDAYS[i as usize]
}
#[cfg(kani)]
pub fn any_month() -> Month {
    let i: u8 = kani::any();
    kani::assume(i < 12);
    MONTHS[i as usize]
}
/// Index of a weekday, Monday = 0, computed without chrono's numbering functions.
pub fn wd_index(w: Weekday) -> u32 {
    match w {
        Weekday::Mon => 0, Weekday::Tue => 1, Weekday::Wed => 2, Weekday::Thu => 3,
        Weekday::Fri => 4, Weekday::Sat => 5, Weekday::Sun => 6,
    }
}
pub fn month_index(m: Month) -> u32 {
    match m {
        Month::January => 1, Month::February => 2, Month::March => 3, Month::April => 4,
        Month::May => 5, Month::June => 6, Month::July => 7, Month::August => 8,
        Month::September => 9, Month::October => 10, Month::November => 11, Month::December => 12,
    }
}

/// Any representable date, built through the real ordinal constructor (every date has an ordinal form).
#[cfg(kani)]
pub fn any_date() -> NaiveDate {
    let y: i32 = kani::any();
    let o: u32 = kani::any();
    let d = NaiveDate::from_yo_opt(y, o);
    kani::assume(d.is_some());
    d.unwrap()
}
/// Any time of day including every leap-second representation the public API can build
/// (`with_nanosecond` documents that a leap second may follow *any* whole second).
#[cfg(kani)]
pub fn any_time() -> NaiveTime {
    use chrono::Timelike;
    let s: u32 = kani::any();
    let n: u32 = kani::any();
    let t = NaiveTime::from_num_seconds_from_midnight_opt(s, 0);
    kani::assume(t.is_some());
    let t = t.unwrap().with_nanosecond(n);
    kani::assume(t.is_some());
    t.unwrap()
}
/// Any time of day that is not a leap second.
#[cfg(kani)]
pub fn any_plain_time() -> NaiveTime {
    let s: u32 = kani::any();
    let n: u32 = kani::any();
    kani::assume(n < 1_000_000_000);
    let t = NaiveTime::from_num_seconds_from_midnight_opt(s, n);
    kani::assume(t.is_some());
    t.unwrap()
}
#[cfg(kani)]
pub fn any_datetime() -> NaiveDateTime {
    NaiveDateTime::new(any_date(), any_time())
}
#[cfg(kani)]
pub fn any_offset() -> FixedOffset {
    let s: i32 = kani::any();
    let o = FixedOffset::east_opt(s);
    kani::assume(o.is_some());
    o.unwrap()
}

/// Fixed-capacity text sink: `write_str` is one memcpy, no allocation.
pub struct Buf<const N: usize> {
    pub b: [u8; N],
    pub len: usize,
    pub overflow: bool,
}
impl<const N: usize> Buf<N> {
    pub fn new() -> Self {
        Buf { b: [0u8; N], len: 0, overflow: false }
    }
    pub fn as_str(&self) -> &str {
        // only whole `&str` pieces and `char`s are ever appended, so the prefix is valid UTF-8; skipping the
        // validation loop keeps std's chunked ASCII scanner out of the formula
        unsafe { core::str::from_utf8_unchecked(&self.b[..self.len]) }
    }
}
impl<const N: usize> fmt::Write for Buf<N> {
    fn write_str(&mut self, s: &str) -> fmt::Result {
        let n = s.len();
        if self.len + n > N {
            self.overflow = true;
            return Err(fmt::Error);
        }
        self.b[self.len..self.len + n].copy_from_slice(s.as_bytes());
        self.len += n;
        Ok(())
    }
    fn write_char(&mut self, c: char) -> fmt::Result {
        if c.is_ascii() {
            if self.len + 1 > N {
                self.overflow = true;
                return Err(fmt::Error);
            }
            self.b[self.len] = c as u8;
            self.len += 1;
            Ok(())
        } else {
            let mut tmp = [0u8; 4];
            let s = c.encode_utf8(&mut tmp);
            self.write_str(s)
        }
    }
}


/// An `Offset` whose `Display` writes nothing. `DelayedFormat::new_with_offset` stores `(offset.to_string(), offset.fix())`;
/// the string is only read by `%Z`. With `FixedOffset` itself the `to_string()` drags core::fmt's padding machinery and a
/// heap `String` into every formula although no harness looks at it.
#[derive(Clone)]
pub struct QuietOffset(pub chrono::FixedOffset);
impl fmt::Debug for QuietOffset {
    fn fmt(&self, _f: &mut fmt::Formatter) -> fmt::Result {
        Ok(())
    }
}
impl fmt::Display for QuietOffset {
    fn fmt(&self, _f: &mut fmt::Formatter) -> fmt::Result {
        Ok(())
    }
}
impl chrono::Offset for QuietOffset {
    fn fix(&self) -> chrono::FixedOffset {
        self.0
    }
}

/// Render `items` for the WALL-CLOCK reading (date, time) at `off` into a fixed buffer through the real
/// `DelayedFormat::write_to` (exactly what `DateTime::format_with_items` builds from `overflowing_naive_local()`).
pub fn render_wall<const N: usize>(d: chrono::NaiveDate, t: chrono::NaiveTime, off: chrono::FixedOffset, items: &[chrono::format::Item<'static>]) -> Buf<N> {
    let mut buf = Buf::<N>::new();
    let q = QuietOffset(off);
    let df = chrono::format::DelayedFormat::new_with_offset(Some(d), Some(t), &q, items.iter());
    assert!(df.write_to(&mut buf).is_ok() && !buf.overflow);
    buf
}
