//! C09 — default text forms parse back to the same value.
use crate::refcal::*;
use crate::util::*;
use chrono::{Datelike, FixedOffset, Month, NaiveDate, NaiveTime, Timelike, Weekday};
use core::fmt::Write;

// @ob tier=thorough timeout=3000 mem=14
// @desc NaiveDate with year 0..=9999: the Display/Debug form is exactly YYYY-MM-DD (zero padded, no sign) and str::parse::<NaiveDate>() of it returns the original date
// @bounds all dates with year in 0..=9999; buffer of 10 bytes (unwind 12 covers the scanners' digit loops)
// @funcs impl Debug/Display for NaiveDate, write_hundreds, impl FromStr for NaiveDate, format::parse (Numeric Year/Month/Day, Literal, Space), scan::number, Parsed::{set_year, set_month, set_day, to_naive_date}
// @outside years outside 0..=9999 (explicit sign, 5-6 digits): harness c09_date_signed (thorough)
#[kani::proof]
#[kani::unwind(12)]
fn c09_date_y4() {
    let d = any_date();
    let (y, m, dd) = (d.year(), d.month(), d.day());
    kani::assume(y >= 0 && y <= 9999 && valid_ymd(y, m, dd));
    let mut buf = Buf::<10>::new();
    assert!(write!(buf, "{}", d).is_ok() && buf.len == 10 && !buf.overflow);
    let b = &buf.b;
    // shape and digits
    assert!(b[4] == b'-' && b[7] == b'-');
    assert!((b[0] - b'0') as i32 * 1000 + (b[1] - b'0') as i32 * 100 + (b[2] - b'0') as i32 * 10 + (b[3] - b'0') as i32 == y);
    assert!(((b[5] - b'0') * 10 + (b[6] - b'0')) as u32 == m && ((b[8] - b'0') * 10 + (b[9] - b'0')) as u32 == dd);
    let back: Result<NaiveDate, _> = buf.as_str().parse();
    assert!(back == Ok(d));
    kani::cover!(y == 0);
    kani::cover!(y == 9999 && m == 12 && dd == 31);
}

// @ob tier=thorough timeout=1800 mem=12
// @desc whole-minute FixedOffset: Display is +HH:MM / -HH:MM and parses back to the same offset; Weekday Display ("Mon".."Sun") and Month names parse back to the same value
// @bounds all offsets that are whole minutes in (-24h, 24h); all 7 weekdays; all 12 months; buffers <= 9 bytes (unwind 12)
// @funcs impl Display for FixedOffset / FromStr for FixedOffset, scan::timezone_offset; Display/FromStr for Weekday; Month::name / FromStr for Month; scan::short_or_long_weekday, short_or_long_month0
#[kani::proof]
#[kani::unwind(12)]
fn c09_offset_weekday_month() {
    let mins: i32 = kani::any();
    kani::assume(mins > -1440 && mins < 1440);
    let off = FixedOffset::east_opt(mins * 60).unwrap();
    let mut buf = Buf::<9>::new();
    assert!(write!(buf, "{}", off).is_ok() && buf.len == 6);
    let b = &buf.b;
    let a = if mins < 0 { -mins } else { mins };
    assert!(b[0] == if mins < 0 { b'-' } else { b'+' } && b[3] == b':');
    assert!(((b[1] - b'0') * 10 + (b[2] - b'0')) as i32 == a / 60 && ((b[4] - b'0') * 10 + (b[5] - b'0')) as i32 == a % 60);
    let back: Result<FixedOffset, _> = buf.as_str().parse();
    assert!(back == Ok(off));
    let w = any_weekday();
    let mut wb = Buf::<9>::new();
    assert!(write!(wb, "{}", w).is_ok() && wb.len == 3);
    assert!(wb.as_str().parse::<Weekday>() == Ok(w));
    let m = any_month();
    assert!(m.name().parse::<Month>() == Ok(m));
    kani::cover!(mins < 0);
    kani::cover!(m == Month::September);
}
