#!/usr/bin/env python3-vt
"""Regenerate /verif/MANIFEST.json from the registered obligations (run after adding harnesses)."""
import json
import os
import subprocess
import sys

VERIF = os.path.dirname(os.path.dirname(os.path.abspath(__file__)))
sys.path.insert(0, os.path.join(VERIF, "lib"))
import kani_engine as K

# No fallback: a manifest generated without the M obligations silently drops claims (seen when the
# script was started with the system python instead of python3-vt).
import jsonschema
import mir_engine as M

# per property: (design section, what the claim is, what is assumed)
TEXT = {
    "C01": ("DESIGN §2 C01", "calendar constructors/accessors vs an independent proleptic Gregorian reference, all i32/u32 argument tuples"),
    "C02": ("DESIGN §2 C02", "timestamp <-> UTC date-time correspondence over all i64 counts"),
    "C03": ("DESIGN §2 C03", "exact-or-refused date/date-time arithmetic"),
    "C04": ("DESIGN §2 C04", "instant vs wall clock for all date-times x all offsets"),
    "C05": ("DESIGN §2 C05 / §8.2", "zone-data lookups: transition table (bounded size) vs a linear-scan reference; POSIX rule evaluator (rule.rs) over its full integer domains"),
    "C06": ("DESIGN §2 C06", "TimeDelta as exact nanosecond count in a closed range"),
    "C07": ("DESIGN §2 C07", "time-of-day validity, wrap-around arithmetic and leap-second rules"),
    "C08": ("DESIGN §2 C08", "month stepping, field replacement, week helpers"),
    "C09": ("DESIGN §2 C09 / §8.2", "default text forms: NaiveDate/offset/names Display -> FromStr (K), values printed by NaiveTime Debug (M)"),
    "C10": ("DESIGN §2 C10 / §8.2", "RFC 3339 writer conformance (date, time per fraction class, offset); reader not built"),
    "C11": ("DESIGN §2 C11 / §8.2", "RFC 2822 writer shape with the reference weekday; reader not built"),
    "C12": ("DESIGN §2 C12 / §8.2", "numeric and offset strftime items vs a reference renderer (K), year/century writer decisions over all i32 (M)"),
    "C13": ("DESIGN §2 C13 / §8.2", "format/parse inverse at item level for %H:%M:%S and %Y-%m-%d (real writer -> real parser)"),
    "C14": ("DESIGN §2 C14 / §8.2", "Parsed field resolution soundness over field subsets (K), timestamp reconstruction over all i64 (M)"),
    "C15": ("DESIGN §2 C15", "no panic / overflow / invalid value in fallible entry points; StrftimeItems progress step"),
    "C16": ("DESIGN §2 C16 / §8.2", "accepted zones answer every query without panic/overflow (bounded table, full-domain rule evaluator); byte-level readers not built"),
    "C17": ("DESIGN §2 C17", "duration rounding lands on the right multiple; subsecond rounding"),
    "C18": ("DESIGN §2 C18", "Local cache decision logic under a ghost clock/environment"),
    "C19": ("DESIGN §2 C19", "Weekday/Month/WeekdaySet algebra, exhaustive by symbolic enumeration"),
    "C20": ("DESIGN §2 C20", "serde helper modules and visitors over all i64/u64, cell data format"),
}

NA_REASON = {}
try:
    NA_REASON = json.load(open(os.path.join(VERIF, "not_applicable.json")))
except FileNotFoundError:
    pass


def main():
    hs = K.discover()
    mobs = M.discover() if M else []
    props = [json.loads(l) for l in open(os.path.join(VERIF, "properties.jsonl"))]
    hooks_commits = []
    try:
        out = subprocess.run(["git", "-C", "/repo", "log", "--format=%h %s"], capture_output=True, text=True).stdout
        hooks_commits = [l.split()[0] for l in out.splitlines() if l.split(" ", 1)[1].startswith("verif-hook")]
    except Exception:
        pass
    checks = []
    na = []
    for p in props:
        pid = p["id"]
        kh = [h for h in hs if h.prop == pid]
        mo = [o for o in mobs if o.prop == pid or pid in getattr(o, "also", [])]
        if pid in NA_REASON and not kh and not mo:
            na.append({"property_id": pid, "reason": NA_REASON[pid]})
            continue
        if not kh and not mo:
            na.append({"property_id": pid, "reason": "no solver obligation built for this property (yet); not claimed"})
            continue
        ref, what = TEXT[pid]
        nq = len([h for h in kh if h.tier == "quick"]) + len([o for o in mo if o.tier == "quick"])
        nt = len([h for h in kh if h.tier != "extra"]) + len([o for o in mo if o.tier != "extra"])
        engines = []
        if kh:
            engines.append("Kani/CBMC bounded model checking of the compiled crate")
        if mo:
            engines.append("MIR->SMT-LIB (integer theory) obligations decided by z3")
        checks.append({
            "property_id": pid,
            "quick_cmd": f"./check {pid} --tier quick",
            "thorough_cmd": f"./check {pid} --tier thorough",
            "evidence_file": f"/verif/evidence/{pid}.json",
            "replay_cmd_template": "./check --replay {path}",
            "engine": "+".join((["K"] if kh else []) + (["M"] if mo else [])),
            "level_claimed": {
                "category": "model_checking",
                "text": (f"Bounded solver-based checking of the real code: {what}. {nq} obligations in the quick tier, "
                         f"{nt} in the thorough tier; each is decided by a SAT/SMT solver for ALL inputs inside the bounds "
                         "stated per obligation in the evidence file (unwinding assertions on), counterexamples are replayed "
                         "natively before being reported. Not a proof: nothing is claimed outside the stated bounds."),
                "design_ref": ref,
            },
            "level_note": ("Trusted: rustc front end, Kani->CBMC translation and its std models, CBMC + CaDiCaL, "
                           "(for M obligations) the MIR dump, the /verif/mirsmt translator validated per run against native "
                           "execution, z3/cvc5; and the hand-written reference oracles in /verif/kani/src. Kani models the dev "
                           "profile. Per-obligation bounds and what lies outside them are listed in the evidence samples."),
            "technique": "solver-based bounded checking of the real code: " + "; ".join(engines),
        })
    man = {
        "version": 1,
        "setup_cmd": "./setup.sh",
        "hooks": {
            "guard": "--cfg chrono_verif",
            "enable": "RUSTFLAGS=\"--cfg chrono_verif\" (set by ./check for every Kani build and for the native probe crate of Engine M; the MIR dumps are taken without it)",
            "baseline_off_cmd": "cd /repo && cargo test --workspace --no-fail-fast --offline",
            "source_commits": hooks_commits,
            "add_only": True,
        },
        "engines": [
            {"name": "K", "path": "/verif/kani + /verif/lib/kani_engine.py",
             "serves_properties": sorted({h.prop for h in hs}),
             "kind_free_text": "Kani 0.68 proof harnesses over the real crate (path dependency on /repo), CBMC 6.11 + CaDiCaL"},
            {"name": "M", "path": "/verif/mirsmt + /verif/lib/mir_engine.py",
             "serves_properties": sorted({o.prop for o in mobs}),
             "kind_free_text": "own MIR -> SMT-LIB (Int) symbolic executor over rustc's MIR dump of /repo, z3 (+cvc5 cross-check)"},
        ],
        "checks": checks,
        "not_applicable": na,
        "notes": "One driver: ./check <Cxx> --tier quick|thorough. Exit 0 held / 1 violation (replayed natively) / 2 inconclusive. Known findings: /verif/known_findings.json.",
    }
    jsonschema.validate(man, json.load(open("/root/.vp/MANIFEST.schema.json")))
    with open(os.path.join(VERIF, "MANIFEST.json"), "w") as f:
        json.dump(man, f, indent=1)
    print("MANIFEST.json:", len(checks), "claimed,", len(na), "not claimed")


if __name__ == "__main__":
    main()
