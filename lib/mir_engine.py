"""Engine M glue: regenerate the MIR dump of /repo's current tree, build the native probe binary, run obligations in
parallel subprocesses (python3-vt mirsmt/run_one.py), collect JSON results."""
import glob
import hashlib
import importlib.util
import json
import os
import shutil
import subprocess
import sys
import time
from concurrent.futures import ThreadPoolExecutor

VERIF = os.path.dirname(os.path.dirname(os.path.abspath(__file__)))
MIRSMT = os.path.join(VERIF, "mirsmt")
REPO = "/repo"
WORK = os.environ.get("VERIF_WORK", "/root/.cache/verif-work")
sys.path.insert(0, MIRSMT)
import api  # noqa: E402
import probes  # noqa: E402

_loaded = False


def discover():
    global _loaded
    if not _loaded:
        for p in sorted(glob.glob(os.path.join(MIRSMT, "specs", "c*.py"))):
            spec = importlib.util.spec_from_file_location("spec_" + os.path.basename(p)[:-3], p)
            m = importlib.util.module_from_spec(spec)
            spec.loader.exec_module(m)
        _loaded = True
    return list(api.REGISTRY)


def tree_hash():
    h = hashlib.sha256()
    for root, dirs, files in os.walk(os.path.join(REPO, "src")):
        dirs.sort()
        for fn in sorted(files):
            p = os.path.join(root, fn)
            h.update(p.encode())
            h.update(open(p, "rb").read())
    for fn in ("Cargo.toml", "Cargo.lock"):
        try:
            h.update(open(os.path.join(REPO, fn), "rb").read())
        except OSError:
            pass
    return h.hexdigest()[:16]


def ensure_dump(features="std"):
    """MIR dump of the current /repo working tree (scratch copy outside /repo and /verif). Returns (mir path, src dir)."""
    hsh = tree_hash()
    base = os.path.join(WORK, "mir")
    os.makedirs(base, exist_ok=True)
    ftag = features.replace(",", "+")
    mir = os.path.join(base, f"chrono-{hsh}-{ftag}.mir")
    src = os.path.join(base, f"src-{hsh}")
    if os.path.exists(mir) and os.path.isdir(src) and os.path.getsize(mir) > 100000:
        return mir, src
    # remove dumps of other trees
    for p in glob.glob(os.path.join(base, "chrono-*.mir")) + glob.glob(os.path.join(base, "src-*")):
        if hsh in os.path.basename(p):
            continue
        if os.path.isdir(p):
            shutil.rmtree(p, ignore_errors=True)
        else:
            os.remove(p)
    if not os.path.isdir(src):
        subprocess.run(["rsync", "-a", "--delete", "--exclude", "target", "--exclude", ".git", REPO + "/", src + "/"], check=True)
    env = dict(os.environ, CARGO_NET_OFFLINE="true")
    env.pop("RUSTFLAGS", None)
    with open(mir + ".tmp", "w") as out, open(os.path.join(base, "mir.err"), "w") as err:
        r = subprocess.run(["cargo", "+nightly", "rustc", "--offline", "--lib", "--no-default-features", "--features", features,
                            "--target-dir", os.path.join(base, "target-" + ftag), "--", "-Zunpretty=mir", "-C", "debug-assertions=off",
                            "-C", "overflow-checks=on"], cwd=src, env=env, stdout=out, stderr=err)
    if r.returncode != 0 or os.path.getsize(mir + ".tmp") < 100000:
        raise RuntimeError("MIR dump failed: " + open(os.path.join(base, "mir.err")).read()[-800:])
    os.replace(mir + ".tmp", mir)
    return mir, src


def ensure_probe():
    d = os.path.join(WORK, "probe")
    probes.gen_crate(d)
    try:
        shutil.copyfile(os.path.join(REPO, "Cargo.lock"), os.path.join(d, "Cargo.lock"))
    except OSError:
        pass
    env = dict(os.environ, CARGO_NET_OFFLINE="true")
    env["RUSTFLAGS"] = "--cfg chrono_verif"      # read-only hooks (tz_info::verif) for the rule.rs probes
    r = subprocess.run(["cargo", "build", "--offline"], cwd=d, env=env, capture_output=True, text=True)
    if r.returncode != 0:
        raise RuntimeError("probe build failed: " + r.stderr[-1500:])
    return os.path.join(d, "target", "debug", "chrono-verif-probe")


def run_many(obs, tier, seed, logdir, known, jobs=8):
    os.makedirs(logdir, exist_ok=True)
    dumps = {}
    for o in obs:
        ft = getattr(o, "features", "std")
        if ft not in dumps:
            dumps[ft] = ensure_dump(ft)
    probe = ensure_probe()
    kj = os.path.join(logdir, "known.json")
    with open(kj, "w") as f:
        json.dump(known, f)

    def one(job):
        o, si = job
        mir, src = dumps[getattr(o, "features", "std")]
        cmd = ["python3-vt", os.path.join(MIRSMT, "run_one.py"), o.name, "--tier", tier, "--seed", str(seed), "--mir", mir,
               "--src", src, "--probe", probe, "--known-json", kj, "--shard", f"{si}/{o.shards}"]
        t0 = time.time()
        r = None
        try:
            r = subprocess.run(cmd, capture_output=True, text=True, timeout=o.timeout + 120)
            line = r.stdout.strip().splitlines()[-1] if r.stdout.strip() else ""
            res = json.loads(line)
        except subprocess.TimeoutExpired:
            res = {"obligation": "M:" + o.name, "verdict": "inconclusive", "why": f"timeout after {o.timeout + 120}s (shard {si})", "desc": o.desc, "bounds": o.bounds}
        except Exception as e:
            res = {"obligation": "M:" + o.name, "verdict": "error", "why": f"runner failure {e!r}: {(r.stderr if r else '')[-600:]}", "desc": o.desc}
        res.setdefault("wall_s", round(time.time() - t0, 2))
        return o.name, si, res

    jobs_l = [(o, si) for o in obs for si in range(o.shards)]
    parts = {}
    with ThreadPoolExecutor(max_workers=jobs) as ex:
        for name, si, res in ex.map(one, jobs_l):
            parts.setdefault(name, {})[si] = res
    out = {}
    rank = {"violation": 0, "unreplayed": 1, "error": 2, "inconclusive": 3, "vacuous": 4, "held": 5}
    for o in obs:
        ps = parts[o.name]
        worst = min(ps.values(), key=lambda r: rank.get(r["verdict"], 2))
        res = dict(ps[0]) if ps[0]["verdict"] == worst["verdict"] else dict(worst)
        res["queries"] = sum(p.get("queries", 0) for p in ps.values())
        res["solver_s"] = round(sum(p.get("solver_s", 0) for p in ps.values()), 2)
        res["wall_s"] = max(p.get("wall_s", 0) for p in ps.values())
        res["splits"] = f"{o.shards} shard(s)"
        res["known_finding_lines"] = sorted({l for p in ps.values() for l in p.get("known_finding_lines", [])})
        res.pop("log", None)
        with open(os.path.join(logdir, "M-" + o.name + ".json"), "w") as f:
            json.dump({"merged": res, "shards": ps}, f, indent=1)
        out[o.name] = res
    return out


def replay(d):
    r = d["result"]
    name = r["obligation"].replace("M:", "")
    obs = [o for o in discover() if o.name == name]
    if not obs:
        print("obligation no longer exists")
        return 2
    res = run_many(obs, "quick", 0, os.path.join(WORK, "logs", "replay"), {})
    print(json.dumps(res[name], indent=1)[:3000])
    if res[name]["verdict"] == "violation":
        print(f"VIOLATION property={d['property']} replay=(re-derived) {name}")
        return 1
    return 0
