"""Engine K: run Kani proof harnesses of /verif/kani against /repo, parse results, replay counterexamples.

Everything is rebuilt from /repo's current working tree (cargo fingerprints the path dependency).
Scratch (target dirs, playback crate copies) lives under WORK (outside /repo and /verif).
"""
import fcntl
import json
import os
import re
import resource
import shutil
import signal
import subprocess
import threading
import time
from concurrent.futures import ThreadPoolExecutor

VERIF = os.path.dirname(os.path.dirname(os.path.abspath(__file__)))
KANI_DIR = os.path.join(VERIF, "kani")
REPO = "/repo"
WORK = os.environ.get("VERIF_WORK", "/root/.cache/verif-work")
GUARD_RUSTFLAGS = "--cfg chrono_verif"

ANN_RE = re.compile(r"^\s*//\s*@(\w+)\s*(.*)$")
FN_RE = re.compile(r"^\s*(?:pub\s+)?fn\s+(c(\d\d)_\w+)\s*\(")


class Harness:
    def __init__(self):
        self.name = None
        self.module = None
        self.file = None
        self.prop = None
        self.tier = "quick"
        self.timeout = 600
        self.mem = 8
        self.features = []
        self.kf = []  # known-finding ids whose exclusion predicate this harness carries
        self.args = []
        self.desc = ""
        self.bounds = ""
        self.funcs = ""
        self.outside = ""
        self.unwind = None

    @property
    def path(self):
        return f"{self.module}::{self.name}"


def discover():
    """Scan kani/src/*.rs for annotated #[kani::proof] harnesses."""
    out = []
    src = os.path.join(KANI_DIR, "src")
    for fn in sorted(os.listdir(src)):
        if not fn.endswith(".rs") or fn in ("lib.rs",):
            continue
        module = fn[:-3]
        ann = {}
        is_proof = False
        unwind = None
        cur_macro = None
        macro_ann = {}
        with open(os.path.join(src, fn)) as f:
            for line in f:
                mm = re.match(r"^macro_rules!\s+(\w+)", line)
                if mm:
                    cur_macro = mm.group(1)
                if cur_macro and is_proof and re.match(r"^\s*fn \$\w+\(", line):
                    macro_ann[cur_macro] = (dict(ann), unwind)
                    ann, is_proof, unwind = {}, False, None
                    continue
                mi = re.match(r"^(\w+)!\((c(\d\d)_\w+),", line)
                if mi and mi.group(1) in macro_ann:
                    a2, uw = macro_ann[mi.group(1)]
                    out.append(_mk_harness(mi.group(2), module, os.path.join(src, fn), "C" + mi.group(3), uw, a2))
                    continue
                m = ANN_RE.match(line)
                if m:
                    k, v = m.group(1), m.group(2).strip()
                    ann[k] = (ann[k] + " " + v) if k in ann and k != "ob" else v
                    continue
                if "#[kani::proof]" in line:
                    is_proof = True
                    continue
                mu = re.search(r"#\[kani::unwind\((\d+)\)\]", line)
                if mu:
                    unwind = int(mu.group(1))
                    continue
                if line.strip().startswith("#["):
                    continue
                mf = FN_RE.match(line)
                if mf and is_proof:
                    out.append(_mk_harness(mf.group(1), module, os.path.join(src, fn), "C" + mf.group(2), unwind, ann))
                if line.strip() and not line.strip().startswith("//"):
                    ann = {}
                    is_proof = False
                    unwind = None
    return out


def _mk_harness(name, module, file, prop, unwind, ann):
    h = Harness()
    h.name = name
    h.module = module
    h.file = file
    h.prop = prop
    h.unwind = unwind
    for tok in ann.get("ob", "").split():
        if "=" in tok:
            k, v = tok.split("=", 1)
        else:
            k, v = tok, "1"
        if k == "tier":
            h.tier = v
        elif k == "timeout":
            h.timeout = int(v)
            cap = os.environ.get("VERIF_TIMEOUT_CAP")      # measurement aid: cap every harness timeout
            if cap:
                h.timeout = min(h.timeout, int(cap))
        elif k == "mem":
            h.mem = int(v)
        elif k == "features":
            h.features = v.split(",")
        elif k == "kf":
            h.kf = v.split(",")
        elif k == "args":
            h.args = v.split(",")
    h.desc = ann.get("desc", "")
    h.bounds = ann.get("bounds", "")
    h.funcs = ann.get("funcs", "")
    h.outside = ann.get("outside", "")
    return h


# ------------------------------------------------------------------------------------------------
# process helpers


def _limits(mem_gb):
    def f():
        os.setsid()
        lim = int(mem_gb * (1 << 30))
        try:
            resource.setrlimit(resource.RLIMIT_AS, (lim, lim))
        except Exception:
            pass

    return f


def run_cmd(cmd, cwd, timeout, mem_gb=None, env=None, log=None):
    e = dict(os.environ)
    e["CARGO_NET_OFFLINE"] = "true"
    e["RUSTFLAGS"] = GUARD_RUSTFLAGS
    e.pop("CARGO_TARGET_DIR", None)
    if env:
        e.update(env)
    t0 = time.time()
    p = subprocess.Popen(
        cmd,
        cwd=cwd,
        env=e,
        stdout=subprocess.PIPE,
        stderr=subprocess.STDOUT,
        text=True,
        errors="replace",
        preexec_fn=_limits(mem_gb) if mem_gb else os.setsid,
    )
    timed_out = False
    try:
        out, _ = p.communicate(timeout=timeout)
    except subprocess.TimeoutExpired:
        timed_out = True
        try:
            os.killpg(p.pid, signal.SIGKILL)
        except ProcessLookupError:
            pass
        out, _ = p.communicate()
    dt = time.time() - t0
    if log:
        with open(log, "w") as f:
            f.write("$ " + " ".join(cmd) + "\n" + out)
    return p.returncode, out, dt, timed_out


class Slots:
    """Target-dir slots: one cargo-kani process per slot at a time (also across concurrent ./check runs)."""

    def __init__(self):
        os.makedirs(WORK, exist_ok=True)
        self.lock = threading.Lock()
        self.held = {}

    def acquire(self):
        while True:
            for i in range(32):
                d = os.path.join(WORK, f"kani-slot{i}")
                os.makedirs(d, exist_ok=True)
                fd = os.open(os.path.join(d, ".lock"), os.O_CREAT | os.O_RDWR)
                try:
                    fcntl.flock(fd, fcntl.LOCK_EX | fcntl.LOCK_NB)
                except OSError:
                    os.close(fd)
                    continue
                with self.lock:
                    self.held[d] = fd
                return d
            time.sleep(1)

    def release(self, d):
        with self.lock:
            fd = self.held.pop(d)
        fcntl.flock(fd, fcntl.LOCK_UN)
        os.close(fd)


SLOTS = Slots()


def sync_lockfile():
    src = os.path.join(REPO, "Cargo.lock")
    dst = os.path.join(KANI_DIR, "Cargo.lock")
    try:
        a = open(src, "rb").read()
    except FileNotFoundError:
        return
    try:
        b = open(dst, "rb").read()
    except FileNotFoundError:
        b = None
    if a != b:
        tmp = dst + f".tmp{os.getpid()}"
        with open(tmp, "wb") as f:
            f.write(a)
        os.replace(tmp, dst)


# ------------------------------------------------------------------------------------------------
# result parsing

SUMMARY_RE = re.compile(r"\*\* (\d+) of (\d+) failed")
COVER_RE = re.compile(r"\*\* (\d+) of (\d+) cover properties satisfied")
VTIME_RE = re.compile(r"Verification Time: ([0-9.]+)s")


def parse_kani_output(out):
    r = {
        "status": "error",
        "checks": 0,
        "failed": 0,
        "covers": 0,
        "covers_sat": 0,
        "failed_checks": [],
        "solver_s": None,
    }
    m = SUMMARY_RE.search(out)
    if m:
        r["failed"], r["checks"] = int(m.group(1)), int(m.group(2))
    m = COVER_RE.search(out)
    if m:
        r["covers_sat"], r["covers"] = int(m.group(1)), int(m.group(2))
    m = VTIME_RE.search(out)
    if m:
        r["solver_s"] = float(m.group(1))
    fc = []
    lines = out.splitlines()
    for i, l in enumerate(lines):
        if l.startswith("Failed Checks:"):
            loc = lines[i + 1].strip() if i + 1 < len(lines) else ""
            fc.append((l[len("Failed Checks:"):].strip(), loc))
    r["failed_checks"] = fc
    if "VERIFICATION:- SUCCESSFUL" in out:
        r["status"] = "success"
    elif "VERIFICATION:- FAILED" in out:
        # CBMC out of memory / internal errors are reported as FAILED too
        if re.search(r"Status: ERROR|CBMC failed|out of memory|std::bad_alloc|Killed", out):
            r["status"] = "error"
        else:
            r["status"] = "failed"
    return r


def is_unwind_only(failed_checks):
    return bool(failed_checks) and all("unwinding assertion" in d for d, _ in failed_checks)


# ------------------------------------------------------------------------------------------------
# running one harness


def kani_cmd(h, slot, features, extra=()):
    cmd = ["cargo", "kani", "--target-dir", slot, "--harness", h.path, "--exact"]
    feats = sorted(set(h.features) | set(features))
    if feats:
        cmd += ["--features", ",".join(feats)]
    for a in h.args:
        cmd += a.split("+")
    cmd += list(extra)
    return cmd


PLAYBACK_RE = re.compile(
    r"/// Check for `([^`]*)`: \"(.*?)\"\s*\n#\[test\]\nfn (\w+)\(\) \{(.*?)\n\}\n", re.S
)


def extract_playback_tests(out):
    tests = []
    for m in PLAYBACK_RE.finditer(out):
        kind, desc, name, body = m.groups()
        if kind == "cover":
            continue
        tests.append({"check": kind, "desc": desc, "name": name, "src": f"#[test]\nfn {name}() {{{body}\n}}\n"})
    return tests


def native_playback(h, tests, features, log_prefix):
    """Copy the harness crate, append the concrete playback tests, run them natively (dev + release).
    Returns dict test-name -> {dev: failed?, release: failed?}."""
    d = os.path.join(WORK, f"replay-{os.getpid()}-{h.name}")
    shutil.rmtree(d, ignore_errors=True)
    shutil.copytree(KANI_DIR, d, ignore=shutil.ignore_patterns("target"))
    res = {}
    try:
        with open(os.path.join(d, "src", h.module + ".rs"), "a") as f:
            f.write("\n// ---- concrete playback (generated) ----\n")
            for t in tests:
                f.write(t["src"])
        feats = sorted(set(h.features) | set(features))
        for prof in ("dev", "release"):
            cmd = ["cargo", "kani", "playback", "-Z", "concrete-playback"]
            if feats:
                cmd += ["--features", ",".join(feats)]
            env = None
            if prof == "release":
                # `cargo kani playback` has no --release; emulate the release profile users run
                env = {"CARGO_PROFILE_DEV_OPT_LEVEL": "3", "CARGO_PROFILE_DEV_DEBUG_ASSERTIONS": "false",
                       "CARGO_PROFILE_DEV_OVERFLOW_CHECKS": "false", "CARGO_PROFILE_TEST_OPT_LEVEL": "3",
                       "CARGO_PROFILE_TEST_DEBUG_ASSERTIONS": "false", "CARGO_PROFILE_TEST_OVERFLOW_CHECKS": "false"}
            cmd += ["--", "kani_concrete_playback", "--test-threads", "1"]
            rc, out, dt, to = run_cmd(cmd, d, 900, None, env=env, log=f"{log_prefix}.playback-{prof}.log")
            for t in tests:
                r = res.setdefault(t["name"], {})
                m = re.search(r"test \S*" + re.escape(t["name"]) + r" \.\.\. (\w+)", out)
                r[prof] = (m.group(1) == "FAILED") if m else None
    finally:
        shutil.rmtree(d, ignore_errors=True)
    return res


def run_harness(h, features, logdir):
    """Returns a result dict with verdict in {'held','violation','unreplayed','inconclusive','vacuous','error'}."""
    slot = SLOTS.acquire()
    t0 = time.time()
    res = {"harness": h.path, "desc": h.desc, "bounds": h.bounds, "functions": h.funcs, "outside": h.outside,
           "unwind": h.unwind, "features": sorted(set(h.features) | set(features))}
    try:
        log = os.path.join(logdir, h.name + ".log")
        cmd = kani_cmd(h, slot, features)
        res["cmd"] = " ".join(cmd)
        rc, out, dt, to = run_cmd(cmd, KANI_DIR, h.timeout, h.mem, log=log)
        res["wall_s"] = round(dt, 2)
        if to:
            res["verdict"] = "inconclusive"
            res["why"] = f"timeout after {h.timeout}s"
            return res
        r = parse_kani_output(out)
        res.update({k: r[k] for k in ("checks", "failed", "covers", "covers_sat", "solver_s")})
        if r["status"] == "error":
            res["verdict"] = "error"
            tail = "\n".join(out.splitlines()[-15:])
            res["why"] = "kani/cbmc error or resource limit: " + tail[-800:]
            return res
        if r["status"] == "success":
            if r["covers_sat"] < r["covers"]:
                res["verdict"] = "vacuous"
                res["why"] = f"only {r['covers_sat']} of {r['covers']} reachability witnesses satisfiable"
            else:
                res["verdict"] = "held"
            return res
        # FAILED
        res["failed_checks"] = [f"{d} @ {l}" for d, l in r["failed_checks"]]
        if is_unwind_only(r["failed_checks"]):
            res["verdict"] = "inconclusive"
            res["why"] = "only unwinding assertions failed: loop bound exceeded (unwind bound too small for this code)"
            return res
        # counterexample -> concrete playback -> native replay
        cmd2 = kani_cmd(h, slot, features, ["-Z", "concrete-playback", "--concrete-playback=print"])
        # the counterexample run keeps the trace in memory: give it twice the harness budget (it only runs after a failure)
        rc2, out2, dt2, to2 = run_cmd(cmd2, KANI_DIR, h.timeout * 2, min(48, (h.mem or 16) * 2), log=log + ".cex")
        tests = extract_playback_tests(out2)
        # prefer assertion / panic checks of the harness, keep at most 4
        tests = [t for t in tests if "unwinding" not in t["desc"]][:4]
        res["counterexamples"] = [{"check": t["check"], "desc": t["desc"], "test": t["src"]} for t in tests]
        if not tests:
            res["verdict"] = "unreplayed"
            res["why"] = "no concrete playback test could be generated for the failed checks"
            return res
        pb = native_playback(h, tests, features, log)
        res["native_replay"] = pb
        if any(v.get("dev") or v.get("release") for v in pb.values()):
            res["verdict"] = "violation"
        else:
            res["verdict"] = "unreplayed"
            res["why"] = "counterexample did not reproduce natively (model/stub issue or UB-only check)"
        return res
    finally:
        res.setdefault("wall_s", round(time.time() - t0, 2))
        res["total_wall_s"] = round(time.time() - t0, 2)
        SLOTS.release(slot)


def run_many(hs, features_for, logdir, jobs=12, mem_budget=52, progress=None):
    """Run harnesses in parallel under a memory budget. features_for(h) -> extra features."""
    os.makedirs(logdir, exist_ok=True)
    sync_lockfile()
    results = {}
    cond = threading.Condition()
    state = {"mem": 0}

    def work(h):
        with cond:
            while state["mem"] + h.mem > mem_budget and state["mem"] > 0:
                cond.wait()
            state["mem"] += h.mem
        try:
            r = run_harness(h, features_for(h), logdir)
        except Exception as e:  # machinery error
            r = {"harness": h.path, "verdict": "error", "why": f"driver exception: {e!r}"}
        finally:
            with cond:
                state["mem"] -= h.mem
                cond.notify_all()
        if progress:
            progress(h, r)
        return r

    # longest first
    order = sorted(hs, key=lambda h: -h.timeout)
    with ThreadPoolExecutor(max_workers=jobs) as ex:
        futs = {h.name: ex.submit(work, h) for h in order}
        for h in hs:
            results[h.name] = futs[h.name].result()
    return results
